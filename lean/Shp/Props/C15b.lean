/-
C15, complete Reader — the attribute rows follow the same positions as the shapes, so pairs stay
aligned whatever was called before.
-/
import Shp.Props.C15
import Shp.Model.PairsRead
namespace Shp.C15
open Shp

/-- the pairs an iteration starting at position `k` is expected to yield: shape `i` with row `i` -/
def expectPairs (shapes : List Shape) (k j : Nat) : List POut :=
  (((shapes.drop k).take j).zipIdx k).map fun p => POut.pair p.1 p.2

/-- shapes and rows are at the same position, or both are past the end -/
def Aligned (n : Nat) (pr : PReader) : Prop :=
  pr.rowPos = pr.rs.nextShape ∨ (n ≤ pr.rs.nextShape ∧ n ≤ pr.rowPos)

structure PInv (o : Orient) (tg : Target) (shapes : List Shape) (pr : PReader) : Prop where
  rinv : RInv o tg shapes pr.rs
  rows : pr.rows = shapes.length
  aligned : Aligned shapes.length pr

theorem iterPairs_aligned (o : Orient) (tg : Target) (shapes : List Shape) (j cnt : Nat) (pr : PReader)
    (h : PInv o tg shapes pr) (hcnt : cnt + (shapes.length - pr.rs.nextShape) ≤ shapes.length) :
    (pr.iterPairs o tg j cnt).2 = expectPairs shapes pr.rs.nextShape j ∧ PInv o tg shapes (pr.iterPairs o tg j cnt).1 ∧
    (pr.iterPairs o tg j cnt).1.rs.nextShape = min (pr.rs.nextShape + j) (max pr.rs.nextShape shapes.length) := by
  induction j generalizing cnt pr with
  | zero => exact ⟨by simp [PReader.iterPairs, expectPairs], h, by simp [PReader.iterPairs]; omega⟩
  | succ j ih =>
    by_cases hk : pr.rs.nextShape < shapes.length
    · obtain ⟨st1, hnext, hinv1, hn1⟩ := h.rinv.iterNext hk
      have hrow : pr.rowPos = pr.rs.nextShape := by
        rcases h.aligned with ha | ⟨ha, _⟩
        · exact ha
        · omega
      have hnp : pr.nextPair o tg cnt =
          ({ pr with rs := st1, rowPos := pr.rowPos + 1 }, some (.pair shapes[pr.rs.nextShape] pr.rowPos), cnt + 1) := by
        unfold PReader.nextPair
        rw [hnext]
        simp only
        rw [if_pos ⟨by rw [h.rows]; omega, by rw [h.rows, hrow]; exact hk⟩]
      have hinv' : PInv o tg shapes { pr with rs := st1, rowPos := pr.rowPos + 1 } :=
        ⟨hinv1, h.rows, Or.inl (by simp only [hn1, hrow])⟩
      obtain ⟨ho, hi, hnn⟩ := ih (cnt + 1) { pr with rs := st1, rowPos := pr.rowPos + 1 } hinv'
        (by simp only [hn1]; omega)
      unfold PReader.iterPairs
      rw [hnp]
      simp only
      refine ⟨?_, hi, by rw [hnn]; simp only [hn1]; omega⟩
      rw [ho]
      simp only [hn1, expectPairs, hrow]
      rw [List.drop_eq_getElem_cons hk, List.take_succ_cons, List.zipIdx_cons, List.map_cons]
    · have hk' : shapes.length ≤ pr.rs.nextShape := by omega
      have hnp : pr.nextPair o tg cnt = (pr, none, cnt) := by
        unfold PReader.nextPair
        rw [h.rinv.iterNext_end hk']
      unfold PReader.iterPairs
      rw [hnp]
      simp only
      exact ⟨by simp [expectPairs, List.drop_eq_nil_of_le hk'], h, by omega⟩

theorem seek_aligned (o : Orient) (tg : Target) (shapes : List Shape) (pr : PReader) (h : PInv o tg shapes pr) (k : Nat) :
    (pr.seek k).2 = .unit ∧ PInv o tg shapes (pr.seek k).1 ∧ (pr.seek k).1.rs.nextShape = min k shapes.length := by
  obtain ⟨st', hs, hinv, hn⟩ := h.rinv.seek k
  unfold PReader.seek
  rw [hs]
  refine ⟨rfl, ⟨hinv, h.rows, ?_⟩, hn⟩
  unfold Aligned
  simp only [hn]
  by_cases hk : k ≤ shapes.length
  · left; omega
  · right; omega

/-- the abstract complete reader: a single cursor; an iteration yields shape `i` with row `i` from
the cursor on, `seek(k)` moves the cursor to `min k n` -/
def specRun (shapes : List Shape) : Nat → List PROp → List PRRes
  | _, [] => []
  | pos, .iter j :: ops =>
    .items (expectPairs shapes pos j) :: specRun shapes (min (pos + j) (max pos shapes.length)) ops
  | _, .seek k :: ops => .one .unit :: specRun shapes (min k shapes.length) ops

/-- MAIN (complete Reader): on a reader whose index addresses its records and whose table has one
row per record, ANY sequence of `seek(k)` and partial or complete iterations behaves like a single
cursor over aligned pairs: every iteration yields, from the cursor on, shape `i` paired with row
`i`, in order; `seek(k)` succeeds for every `k` and puts the cursor at `min k n` -/
theorem pairs_stay_aligned (o : Orient) (tg : Target) (shapes : List Shape) (ops : List PROp) (pr : PReader)
    (h : PInv o tg shapes pr) :
    (pr.run o tg ops).2 = specRun shapes pr.rs.nextShape ops ∧ PInv o tg shapes (pr.run o tg ops).1 := by
  induction ops generalizing pr with
  | nil => exact ⟨rfl, h⟩
  | cons op ops ih =>
    cases op with
    | iter j =>
      obtain ⟨ho, hi, hn⟩ := iterPairs_aligned o tg shapes j 0 pr h (by omega)
      obtain ⟨hr, h2⟩ := ih (pr.iterPairs o tg j 0).1 hi
      refine ⟨?_, h2⟩
      simp only [PReader.run, PReader.step, specRun]
      rw [ho, hr, hn]
    | seek k =>
      obtain ⟨ho, hi, hn⟩ := seek_aligned o tg shapes pr h k
      obtain ⟨hr, h2⟩ := ih (pr.seek k).1 hi
      refine ⟨?_, h2⟩
      simp only [PReader.run, PReader.step, specRun]
      rw [ho, hr, hn]

/-- the reader opened on the files the writer produced, with a table of as many rows, is aligned -/
theorem open_pairs (o : Orient) (tg : Target) (ss : List Shape) (hok : FileOK tg ss) :
    ∃ st, RState.open (shpFile ss) (some (shxFile ss)) = .ok st ∧
      PInv o tg (ss.map (Shape.readBack o)) ⟨st, 0, ss.length⟩ := by
  obtain ⟨st, hopen, hinv, hn, _⟩ := open_written o tg ss hok
  exact ⟨st, hopen, hinv, by simp, Or.inl (by simp [hn])⟩

/-- non-vacuity: a pair expectation that is not empty -/
example : expectPairs [Shape.null, Shape.null, Shape.null] 1 5 = [.pair .null 1, .pair .null 2] := by decide

end Shp.C15

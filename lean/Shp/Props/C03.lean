/-
C03 — the reader decodes every spec-conformant .shp, including foreign layouts.
The encoder is the independent whitepaper encoder `Shp.Spec.encodeFile`; `expected` is what a
conforming reader must return.
-/
import Shp.Lemmas.SpecRead
import Shp.Lemmas.ReadAll
namespace Shp.C03
open Shp Spec

/-- well-formed file: every record well-formed for the file's type, a header box of 8 doubles,
total size within the format's `i32` length field -/
structure FileWF (f : File) : Prop where
  info : (typeInfo f.typeCode).isSome
  box : f.box.length = 8
  recs : ∀ r ∈ f.records, r.WF f.typeCode
  small : 100 + (f.records.flatMap Spec.encRecord).length < 4294967296

def expected (o : Orient) (f : File) : List Shape := f.records.map (Rec.expected o)

theorem encRecord_length (r : Rec) : (Spec.encRecord r).length = 8 + (encContent r).length := by
  unfold Spec.encRecord
  simp only [wrI32BE_eq, List.length_append, encI32BE_length]

theorem seq_spec_records (o : Orient) (t : Nat) (recs : List Rec) (pre extra : Bytes)
    (hwf : ∀ r ∈ recs, r.WF t) :
    SeqRecords o .generic (pre ++ (recs.flatMap Spec.encRecord ++ extra)) (pre.length + (recs.flatMap Spec.encRecord).length)
      pre.length (recs.map (Rec.expected o)) := by
  induction recs generalizing pre with
  | nil => simp [SeqRecords]
  | cons r rs ih =>
    have hr := hwf r List.mem_cons_self
    have hrec := spec_read_record o t r hr (rs.flatMap Spec.encRecord ++ extra)
    have ih' := ih (pre ++ Spec.encRecord r) (fun x hx => hwf x (List.mem_cons_of_mem _ hx))
    have hev := hr.even
    simp only [List.map_cons, SeqRecords, List.flatMap_cons, List.length_append, encRecord_length]
    refine ⟨by omega, (((encContent r).length / 2 : Nat) : Int), rs.flatMap Spec.encRecord ++ extra, ?_, by omega, ?_, ?_⟩
    · rw [List.drop_left, List.append_assoc]; exact hrec
    · simp only [List.length_append, encRecord_length]; omega
    · simp only [List.length_append, encRecord_length, List.append_assoc] at ih'
      have e1 : pre.length + 8 + (2 * (((encContent r).length / 2 : Nat) : Int)).toNat = pre.length + (8 + (encContent r).length) := by omega
      have e2 : pre.length + (8 + (encContent r).length + (rs.flatMap Spec.encRecord).length) =
          pre.length + (8 + (encContent r).length) + (rs.flatMap Spec.encRecord).length := by omega
      rw [e1, e2, List.append_assoc]
      exact ih'

/-- the header the whitepaper encoder writes, as the model's header value -/
def headerOf (f : File) : Header :=
  { fileLength := (((100 + (f.records.flatMap Spec.encRecord).length) / 2 : Nat) : Int),
    bbox := ⟨⟨F64.ofNat (f.box.getD 0 0), F64.ofNat (f.box.getD 1 0), F64.ofNat (f.box.getD 4 0), F64.ofNat (f.box.getD 6 0)⟩,
             ⟨F64.ofNat (f.box.getD 2 0), F64.ofNat (f.box.getD 3 0), F64.ofNat (f.box.getD 5 0), F64.ofNat (f.box.getD 7 0)⟩⟩,
    shapeType := typeOfCode f.typeCode, version := 1000 }

theorem encHeader_eq (f : File) (h : FileWF f) :
    encHeader f.typeCode ((100 + (f.records.flatMap Spec.encRecord).length) / 2) f.box = (headerOf f).enc := by
  unfold encHeader Header.enc headerOf
  have hb := h.box
  match hbx : f.box, hb with
  | [a, b, c, d, e, g, i, j], _ =>
    simp only [wrI32BE_eq, wrI32LE_eq, wrF64_eq, typeOfCode_code f.typeCode h.info, zeros, List.flatMap_cons,
      List.flatMap_nil, List.append_nil, List.append_assoc, List.getD_cons_zero, List.getD_cons_succ, Const.fileCode]
    rfl

theorem body_even (recs : List Rec) (t : Nat) (hwf : ∀ r ∈ recs, r.WF t) : (recs.flatMap Spec.encRecord).length % 2 = 0 := by
  induction recs with
  | nil => rfl
  | cons r rs ih =>
    have := (hwf r List.mem_cons_self).even
    have := ih (fun x hx => hwf x (List.mem_cons_of_mem _ hx))
    simp only [List.flatMap_cons, List.length_append, encRecord_length]
    omega

/-- MAIN: every spec-conformant byte stream — M/Z shapes whose optional M block is absent, PointZ
without M, null records, parts with zero or one vertex, zero parts, any ring orientation, arbitrary
stored boxes and record numbers, bytes after the declared length — is decoded to exactly the
geometry it encodes. -/
theorem reader_decodes_spec_files (o : Orient) (f : File) (h : FileWF f) :
    readAll o .generic (encodeFile f) none = .ok (expected o f) := by
  have hev := body_even f.records f.typeCode h.recs
  have hsm := h.small
  unfold encodeFile
  simp only []
  rw [encHeader_eq f h, List.append_assoc]
  have hhdr := readHeader_enc (headerOf f) (by unfold InI32 headerOf; simp only; omega) (by unfold InI32 headerOf; simp)
    (f.records.flatMap Spec.encRecord ++ f.trailing)
  have hseq := seq_spec_records o f.typeCode f.records (headerOf f).enc f.trailing h.recs
  unfold readAll RState.open
  simp only [hhdr]
  have hinv : SInv o .generic (expected o f)
      { data := (headerOf f).enc ++ (f.records.flatMap Spec.encRecord ++ f.trailing),
        srcPos := ((headerOf f).enc ++ (f.records.flatMap Spec.encRecord ++ f.trailing)).length -
          (f.records.flatMap Spec.encRecord ++ f.trailing).length,
        header := headerOf f, index := none, currentPos := some Const.headerSize, nextShape := 0 } := by
    refine ⟨rfl, ?_, ?_, ?_⟩
    · simp only [List.length_append, Header.enc_length, Const.headerSize, Option.some.injEq]; omega
    · simp only [headerOf]; omega
    · simp only [List.length_append, Header.enc_length, headerOf] at hseq ⊢
      have e1 : (2 * (((100 + (f.records.flatMap Spec.encRecord).length) / 2 : Nat) : Int)).toNat =
          100 + (f.records.flatMap Spec.encRecord).length := by omega
      have e2 : 100 + ((f.records.flatMap Spec.encRecord).length + f.trailing.length) -
          ((f.records.flatMap Spec.encRecord).length + f.trailing.length) = 100 := by omega
      rw [e1, e2]
      exact hseq
  have hfuel : (expected o f).length ≤ RState.fuel
      { data := (headerOf f).enc ++ (f.records.flatMap Spec.encRecord ++ f.trailing),
        srcPos := ((headerOf f).enc ++ (f.records.flatMap Spec.encRecord ++ f.trailing)).length -
          (f.records.flatMap Spec.encRecord ++ f.trailing).length,
        header := headerOf f, index := none, currentPos := some Const.headerSize, nextShape := 0 } := by
    unfold RState.fuel expected
    simp only [List.length_map, List.length_append, Header.enc_length]
    have : f.records.length ≤ (f.records.flatMap Spec.encRecord).length := by
      clear hseq hinv hhdr hev hsm
      induction f.records with
      | nil => simp
      | cons r rs ih => simp only [List.flatMap_cons, List.length_append, encRecord_length, List.length_cons]; omega
    omega
  rw [hinv.drain _ hfuel, collectShapes_shapes]

/-! what `expected` says, spelled out -/

/-- an absent M block is reported as NO_DATA in every vertex and in the box's measure range -/
theorem expected_absent_m (d : Dim) (p : Pt) (b : BBox) :
    (p.readBackOpt d false).m = F64.noData ∧ (b.readRawOpt d false).min.m = F64.noData ∧
    (b.readRawOpt d false).max.m = F64.noData := by
  simp [Pt.readBackOpt, BBox.readRawOpt, Pt.readRawOpt]

/-- the stored box is returned as stored (X, Y; Z for Z types; M when the block is present) -/
theorem expected_box (d : Dim) (m : Bool) (b : BBox) :
    (b.readRawOpt d m).min.x = b.min.x ∧ (b.readRawOpt d m).min.y = b.min.y ∧
    (b.readRawOpt d m).max.x = b.max.x ∧ (b.readRawOpt d m).max.y = b.max.y ∧
    (d.hasZ = true → (b.readRawOpt d m).min.z = b.min.z ∧ (b.readRawOpt d m).max.z = b.max.z) ∧
    (d.hasM = true → m = true → (b.readRawOpt d m).min.m = b.min.m ∧ (b.readRawOpt d m).max.m = b.max.m) := by
  refine ⟨rfl, rfl, rfl, rfl, ?_, ?_⟩
  · intro h; simp [BBox.readRawOpt, Pt.readRawOpt, h]
  · intro h1 h2; simp [BBox.readRawOpt, Pt.readRawOpt, h1, h2]

/-- non-vacuity: a PolylineZ record WITHOUT its M block and with a one-vertex part is well-formed -/
def sampleRec : Rec :=
  { number := -7, typeCode := 13, box := [1, 2, 3, 4], parts := [[⟨1, 2, 3, 0⟩], []], mPresent := false }
example : sampleRec.WF 13 := by
  refine ⟨by decide, Or.inl rfl, by decide, fun _ => rfl, trivial, by decide, by decide⟩

end Shp.C03

/-
C09 — any interleaving of writes and finalize calls yields the same files as drop.
Statements are over EVERY call history (no bound on its length), by the invariant `WInv`.
-/
import Shp.Lemmas.History
namespace Shp.C09
open Shp

/-- MAIN: whatever the interleaving of writes and finalizes (finalize first, repeated finalize,
none at all), the bytes left after drop are the complete files of the accepted shapes -/
theorem history_files (hasShx : Bool) (cs : List WCall) (hc : NonNullCalls cs) :
    ((World.init hasShx).run cs).drop.shp.data = shpFile (acceptedOf cs) ∧
    ((World.init hasShx).run cs).drop.shx.data = (if hasShx then shxFile (acceptedOf cs) else []) := by
  have h := (WInv.init hasShx).run cs hc
  have hd := h.1.drop
  have hx : ((World.init hasShx).run cs).st.hasShx = hasShx := h.2
  refine ⟨hd.1, ?_⟩
  cases hasShx
  · simpa using hd.2.2 hx
  · simpa [acceptedOf] using hd.2.1 hx

/-- ... which are exactly the bytes produced by writing the same shapes and simply dropping -/
theorem history_eq_plain_writes (hasShx : Bool) (cs : List WCall) (hc : NonNullCalls cs)
    (hss : ∀ s ∈ acceptedOf cs, s ≠ .null) (hacc : acceptedOf ((acceptedOf cs).map .writeShape) = acceptedOf cs) :
    let w := ((World.init hasShx).run cs).drop
    (w.shp.data, w.shx.data) = writeFiles hasShx (acceptedOf cs) := by
  intro w
  have h1 := history_files hasShx cs hc
  have hc2 : NonNullCalls ((acceptedOf cs).map .writeShape) := by
    intro c hcm
    simp only [List.mem_map] at hcm
    obtain ⟨s, hs, rfl⟩ := hcm
    intro e
    exact hss s hs (by cases e; rfl)
  have h2 := history_files hasShx ((acceptedOf cs).map .writeShape) hc2
  rw [hacc] at h2
  simp only [writeFiles]
  rw [Prod.mk.injEq]
  exact ⟨h1.1.trans h2.1.symm, h1.2.trans h2.2.symm⟩

/-- each successful finalize leaves complete files of the shapes accepted so far -/
theorem finalize_complete (hasShx : Bool) (cs : List WCall) (hc : NonNullCalls cs) :
    let w := ((World.init hasShx).run cs).call .finalize
    w.2 = .ok () ∧ w.1.shp.data = shpFile (acceptedOf cs) ∧ (hasShx = true → w.1.shx.data = shxFile (acceptedOf cs)) := by
  intro w
  have h := (WInv.init hasShx).run cs hc
  have hf := h.1.finalize
  have hclean := hf.2.1.clean hf.2.2.1
  refine ⟨hf.1, hclean.1, ?_⟩
  intro hx
  exact hclean.2 (hf.2.2.2.trans (h.2.trans hx))

/-- finalize on a writer with nothing new to commit performs no I/O and changes nothing -/
theorem finalize_clean_no_io (w : World) (hd : w.st.dirty = false) :
    (planFinalize w.st).ops = [] ∧ w.call .finalize = (w, .ok ()) := by
  refine ⟨?_, call_finalize_clean w hd⟩
  simp [planFinalize, hd]

/-- and after any finalize the writer IS in that state, until the next accepted write -/
theorem finalize_then_finalize (hasShx : Bool) (cs : List WCall) (hc : NonNullCalls cs) :
    let w := (((World.init hasShx).run cs).call .finalize).1
    (planFinalize w.st).ops = [] := by
  intro w
  have h := (WInv.init hasShx).run cs hc
  exact (finalize_clean_no_io _ h.1.finalize.2.2.1).1

/-- the successful finalize ends by flushing both destinations -/
theorem finalize_ends_with_flush (st : WState) (hd : st.dirty = true) :
    ((planFinalize st).ops.filter (·.1 = .shp)).getLast? = some (.shp, .flush) ∧
    (st.hasShx = true → ((planFinalize st).ops.filter (·.1 = .shx)).getLast? = some (.shx, .flush)) := by
  cases hx : st.hasShx <;> simp [planFinalize, hd, hx]

/-- non-vacuity: a concrete history with finalize first, a repeated finalize and no final finalize -/
example : NonNullCalls [.finalize, .writeShape (.point .xy Pt.default), .finalize, .finalize,
    .writeShape (.point .xy Pt.default)] := by
  intro c hc
  simp only [List.mem_cons, List.mem_nil_iff, or_false] at hc
  rcases hc with rfl | rfl | rfl | rfl | rfl <;> simp

end Shp.C09

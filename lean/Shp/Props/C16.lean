/-
C16 — polygon and multipatch constructors close and orient rings, losing no vertex.
Closure and vertex preservation: for EVERY orientation function (the float shoelace included).
Orientation: for the exact signed area over integer (bounded dyadic) coordinates.
-/
import Shp.Model.Construct
namespace Shp.C16
open Shp

/-! ### closing -/

/-- the closed version of the caller's sequence: one copy of the first vertex appended iff the
sequence is not already closed -/
theorem closePoints_eq (d : Dim) (pts : List Pt) :
    closePoints d pts = pts ∨ ∃ p, pts.head? = some p ∧ closePoints d pts = pts ++ [p] := by
  unfold closePoints
  split
  · exact Or.inl rfl
  · cases h : pts.head? with
    | none => exact Or.inl rfl
    | some p => exact Or.inr ⟨p, rfl, rfl⟩

def PtNoNaN (d : Dim) (p : Pt) : Prop :=
  p.x.isNaN = false ∧ p.y.isNaN = false ∧ (d.hasZ = true → p.z.isNaN = false) ∧ (d.hasM = true → p.m.isNaN = false)

theorem feq_refl (a : F64) (h : a.isNaN = false) : a.feq a = true := by simp [F64.feq, h]
theorem feq_symm (a b : F64) : a.feq b = b.feq a := by
  simp only [F64.feq]
  cases a.isNaN <;> cases b.isNaN <;> simp [eq_comm]

theorem peq_refl (d : Dim) (p : Pt) (h : PtNoNaN d p) : Pt.peq d p p = true := by
  obtain ⟨hx, hy, hz, hm⟩ := h
  cases d <;> simp [Pt.peq, feq_refl, hx, hy, Dim.hasZ, Dim.hasM] at hz hm ⊢ <;> simp [feq_refl, *]

theorem peq_symm (d : Dim) (a b : Pt) : Pt.peq d a b = Pt.peq d b a := by
  simp only [Pt.peq, feq_symm a.x b.x, feq_symm a.y b.y, feq_symm a.z b.z, feq_symm a.m b.m]

/-- after closing, first vertex equals last (for a non-empty ring whose first vertex has no NaN) -/
theorem closePoints_closed (d : Dim) (pts : List Pt) (p : Pt) (hp : pts.head? = some p) (hn : PtNoNaN d p) :
    isClosed d (closePoints d pts) = true := by
  unfold closePoints
  by_cases hc : isClosed d pts = true
  · rw [if_pos hc]; exact hc
  · rw [if_neg hc, hp]
    simp only
    unfold isClosed
    have h1 : (pts ++ [p]).head? = some p := by
      cases pts with
      | nil => simp at hp
      | cons a as => simp at hp ⊢; exact hp
    have h2 : (pts ++ [p]).getLast? = some p := by simp
    rw [h1, h2]
    exact peq_refl d p hn

theorem closePoints_of_closed (d : Dim) (l : List Pt) (h : isClosed d l = true) : closePoints d l = l := by
  unfold closePoints; rw [if_pos h]

theorem orderPoints_of_role (o : Orient) (role : Role) (l : List Pt) (h : roleOf o l = role) :
    orderPoints o role l = l := by
  unfold orderPoints; rw [if_pos h]

/-- closing is idempotent -/
theorem closePoints_idem (d : Dim) (pts : List Pt) (p : Pt) (hp : pts.head? = some p) (hn : PtNoNaN d p) :
    closePoints d (closePoints d pts) = closePoints d pts := by
  exact closePoints_of_closed d _ (closePoints_closed d pts p hp hn)

theorem isClosed_reverse (d : Dim) (pts : List Pt) : isClosed d pts.reverse = isClosed d pts := by
  unfold isClosed
  simp only [List.head?_reverse, List.getLast?_reverse]
  cases pts.getLast? <;> cases pts.head? <;> simp [peq_symm]

/-! ### reordering: the whole sequence kept or reversed -/

/-- MAIN (vertices): each ring of a constructed polygon is the caller's sequence, closed by one
copy of its first vertex if it was open, and then kept or reversed as a whole — nothing lost,
altered or moved; the declared role is kept; the result is closed. For EVERY orientation function. -/
theorem closeAndReorder_spec (o : Orient) (d : Dim) (r : Role × List Pt) :
    (closeAndReorder o d r).1 = r.1 ∧
    ((closeAndReorder o d r).2 = closePoints d r.2 ∨ (closeAndReorder o d r).2 = (closePoints d r.2).reverse) := by
  refine ⟨rfl, ?_⟩
  simp only [closeAndReorder, orderPoints]
  split
  · exact Or.inl rfl
  · exact Or.inr rfl

theorem closeAndReorder_closed (o : Orient) (d : Dim) (r : Role × List Pt) (p : Pt)
    (hp : r.2.head? = some p) (hn : PtNoNaN d p) : isClosed d (closeAndReorder o d r).2 = true := by
  rcases (closeAndReorder_spec o d r).2 with h | h <;> rw [h]
  · exact closePoints_closed d r.2 p hp hn
  · rw [isClosed_reverse]; exact closePoints_closed d r.2 p hp hn

/-- every ring of `Polygon::with_rings` / `Polygon::new` -/
theorem polygon_rings (o : Orient) (d : Dim) (rings : List (Role × List Pt)) (s : Shape)
    (h : Shape.mkPolygonRings o d rings = some s) :
    ∃ b, s = .polygon d b (rings.map (closeAndReorder o d)) := by
  unfold Shape.mkPolygonRings at h
  simp only at h
  cases hb : BBox.fromParts d ((rings.map (closeAndReorder o d)).map (·.2)) with
  | none => rw [hb] at h; cases h
  | some b => rw [hb] at h; simp only [Option.map_some, Option.some.injEq] at h; exact ⟨b, h.symm⟩

/-! ### multipatch: ring kinds closed, strips and fans untouched -/

theorem closePatch_spec (p : PatchKind × List Pt) :
    (Shape.closePatch p).1 = p.1 ∧
    ((p.1 = .triangleStrip ∨ p.1 = .triangleFan) → Shape.closePatch p = p) ∧
    ((p.1 = .outerRing ∨ p.1 = .innerRing ∨ p.1 = .firstRing ∨ p.1 = .ring) →
        (Shape.closePatch p).2 = closePoints .xyzm p.2) := by
  obtain ⟨k, pts⟩ := p
  cases k <;> simp [Shape.closePatch, PatchKind.closes]

/-! ### orientation on exact coordinates -/

/-- doubled signed area in the code's convention: sum of (x₁ − x₀)(y₁ + y₀) over consecutive vertices -/
def shoelace2 : List (Int × Int) → Int
  | a :: b :: rest => (b.1 - a.1) * (b.2 + a.2) + shoelace2 (b :: rest)
  | _ => 0

theorem shoelace2_append_single (l : List (Int × Int)) (a b : Int × Int) :
    shoelace2 (l ++ [a, b]) = shoelace2 (l ++ [a]) + (b.1 - a.1) * (b.2 + a.2) := by
  induction l with
  | nil => simp [shoelace2]
  | cons x xs ih =>
    cases xs with
    | nil => simp [shoelace2]
    | cons y ys =>
      simp only [List.cons_append, shoelace2] at ih ⊢
      rw [ih]; omega

/-- reversing a ring negates its signed area -/
theorem shoelace2_reverse (l : List (Int × Int)) : shoelace2 l.reverse = - shoelace2 l := by
  induction l with
  | nil => rfl
  | cons a as ih =>
    cases as with
    | nil => rfl
    | cons b bs =>
      simp only [List.reverse_cons, List.append_assoc, List.cons_append, List.nil_append] at ih ⊢
      rw [shoelace2_append_single, ih]
      simp only [shoelace2]
      have e : (a.1 - b.1) * (a.2 + b.2) = -((b.1 - a.1) * (b.2 + a.2)) := by
        rw [show a.1 - b.1 = -(b.1 - a.1) by omega, Int.neg_mul, show a.2 + b.2 = b.2 + a.2 by omega]
      rw [e]; omega

/-- the exact orientation test on points whose coordinates denote integers via `coord` -/
def exactOrient (coord : Pt → Int × Int) : Orient := fun pts => decide (shoelace2 (pts.map coord) < 0)

/-- MAIN (orientation): with the exact area test, after construction a ring of non-zero area
declared outer has area > 0 in the code's convention (clockwise), one declared inner has area < 0;
with zero area either order is accepted. -/
theorem orderPoints_orientation (coord : Pt → Int × Int) (role : Role) (pts : List Pt)
    (hne : shoelace2 (pts.map coord) ≠ 0) :
    roleOf (exactOrient coord) (orderPoints (exactOrient coord) role pts) = role := by
  unfold orderPoints
  by_cases h : roleOf (exactOrient coord) pts = role
  · rw [if_pos h]; exact h
  · rw [if_neg h]
    unfold roleOf exactOrient at h ⊢
    simp only [List.map_reverse, shoelace2_reverse]
    cases role <;> simp only [decide_eq_true_eq] at h ⊢ <;> split at h <;> simp_all <;> omega

theorem roleOf_exact (coord : Pt → Int × Int) (pts : List Pt) :
    (roleOf (exactOrient coord) pts = .inner ↔ shoelace2 (pts.map coord) < 0) := by
  unfold roleOf exactOrient
  by_cases h : shoelace2 (pts.map coord) < 0 <;> simp [h]

/-- rebuilding a polygon from its own rings (non-zero exact area) changes nothing -/
theorem closeAndReorder_idem (coord : Pt → Int × Int) (d : Dim) (r : Role × List Pt) (p : Pt)
    (hp : r.2.head? = some p) (hn : PtNoNaN d p)
    (hne : shoelace2 ((closePoints d r.2).map coord) ≠ 0) :
    closeAndReorder (exactOrient coord) d (closeAndReorder (exactOrient coord) d r) =
      closeAndReorder (exactOrient coord) d r := by
  -- the result of the first pass is closed and correctly oriented
  have hclosed := closeAndReorder_closed (exactOrient coord) d r p hp hn
  have horient := orderPoints_orientation coord r.1 (closePoints d r.2) hne
  simp only [closeAndReorder] at hclosed horient ⊢
  rw [closePoints_of_closed d _ hclosed, orderPoints_of_role _ _ _ horient]

/-- non-vacuity: the unit square walked counter-clockwise has negative area in this convention
(so it is an inner ring), and its reverse positive -/
example : shoelace2 [(0, 0), (1, 0), (1, 1), (0, 1), (0, 0)] = -2 ∧
    shoelace2 [(0, 0), (0, 1), (1, 1), (1, 0), (0, 0)] = 2 := by decide

end Shp.C16

/-
C07 — reading arbitrary bytes never panics, overflows or runs forever.
The model carries the reader's integer arithmetic on values read from the file explicitly
(`subTypeCode` is the one `i32` subtraction left unguarded in the code; every other site is a
checked operation returning an error).  Statements are over ALL byte strings and ALL operation
sequences.
-/
import Shp.Lemmas.StableAll
import Shp.Lemmas.Shrinks
import Shp.Model.Reader
import Shp.Lemmas.Codec
namespace Shp.C07
open Shp Dec

def ROut.isPanic : ROut → Bool
  | .panic _ => true
  | _ => false

def RRes.hasPanic : RRes → Bool
  | .items l => l.any ROut.isPanic
  | .one r => ROut.isPanic r
  | .hintRes _ => false

/-- opening a reader on arbitrary `.shp` / `.shx` bytes returns a reader or an error -/
theorem open_noPanic (shp : Bytes) (shx : Option Bytes) :
    ∀ s, RState.open shp shx ≠ .error (.panic s) := by
  intro s h
  unfold RState.open at h
  cases shx with
  | none =>
    simp only at h
    have hp := readHeader_noPanic shp
    cases hr : readHeader shp with
    | ok a r => rw [hr] at h; cases h
    | err e => rw [hr] at h; cases h
    | panic s' => rw [hr] at hp; cases hp
  | some x =>
    simp only at h
    have hpx := readIndexFile_noPanic x
    cases hx : readIndexFile x with
    | ok a r =>
      rw [hx] at h
      simp only at h
      have hp := readHeader_noPanic shp
      cases hr : readHeader shp with
      | ok a r => rw [hr] at h; cases h
      | err e => rw [hr] at h; cases h
      | panic s' => rw [hr] at hp; cases hp
    | err e => rw [hx] at h; cases h
    | panic s' => rw [hx] at hpx; cases hpx

theorem readHere_noPanic (o : Orient) (tg : Target) (st : RState) : ROut.isPanic (st.readHere o tg).2 = false := by
  unfold RState.readHere
  have hp := readOneShape_noPanic o tg (st.data.drop st.srcPos)
  cases hr : readOneShape o tg (st.data.drop st.srcPos) with
  | ok a r => rfl
  | err e => rfl
  | panic s => rw [hr] at hp; cases hp

/-- one `next()` never panics -/
theorem iterNext_noPanic (o : Orient) (tg : Target) (st : RState) : ROut.isPanic (st.iterNext o tg).2 = false := by
  unfold RState.iterNext
  cases st.index with
  | some idx =>
    simp only
    cases idx[st.nextShape]? with
    | none => rfl
    | some e =>
      simp only
      cases wordsToBytes e.offset with
      | none => rfl
      | some start => exact readHere_noPanic o tg _
  | none =>
    simp only
    cases st.currentPos with
    | none => rfl
    | some p =>
      simp only
      split
      · rfl
      · exact readHere_noPanic o tg _

theorem seek_noPanic (st : RState) (k : Nat) : ROut.isPanic (st.seek k).2 = false := by
  unfold RState.seek
  cases st.index with
  | none => rfl
  | some idx =>
    simp only
    cases idx[k]? with
    | none => rfl
    | some e =>
      simp only
      cases wordsToBytes e.offset <;> rfl

theorem readNth_noPanic (o : Orient) (tg : Target) (st : RState) (i : Nat) : ROut.isPanic (st.readNth o tg i).2 = false := by
  unfold RState.readNth
  cases st.index with
  | none => rfl
  | some idx =>
    simp only
    split
    · rfl
    · have hs := seek_noPanic st i
      cases hsk : st.seek i with
      | mk st1 out =>
        rw [hsk] at hs
        cases out with
        | unit =>
          simp only
          have hp := readOneShape_noPanic o tg (st1.data.drop st1.srcPos)
          cases hr : readOneShape o tg (st1.data.drop st1.srcPos) with
          | ok a r => rfl
          | err e => rfl
          | panic s => rw [hr] at hp; cases hp
        | panic s => cases hs
        | none => rfl
        | shape s => rfl
        | err e => rfl
        | count n => rfl

theorem iterAll_noPanic (o : Orient) (tg : Target) (fuel : Nat) (st : RState) :
    (st.iterAll o tg fuel).2.any ROut.isPanic = false := by
  induction fuel generalizing st with
  | zero => rfl
  | succ fuel ih =>
    unfold RState.iterAll
    have h1 := iterNext_noPanic o tg st
    cases hn : st.iterNext o tg with
    | mk st1 out =>
      rw [hn] at h1
      cases out with
      | none => rfl
      | panic s => cases h1
      | shape s => simp [ih st1, ROut.isPanic]
      | err e => simp [ih st1, ROut.isPanic]
      | unit => simp [ih st1, ROut.isPanic]
      | count n => simp [ih st1, ROut.isPanic]

/-- MAIN (no panic): whatever the bytes and whatever the sequence of operations — iterate, read by
index, seek, count — every call returns a value or an error -/
theorem run_noPanic (o : Orient) (tg : Target) (ops : List ROp) (st : RState) :
    (st.run o tg ops).2.any RRes.hasPanic = false := by
  induction ops generalizing st with
  | nil => rfl
  | cons op ops ih =>
    simp only [RState.run, List.any_cons, ih, Bool.or_false]
    cases op with
    | iter j => exact iterAll_noPanic o tg j st
    | nth i => exact readNth_noPanic o tg st i
    | seek k => exact seek_noPanic st k
    | count =>
      simp only [RState.step, RRes.hasPanic, RState.shapeCount]
      cases st.index <;> rfl
    | hint => rfl

/-! ### termination: an iteration ends after a number of items bounded by the input size -/

/-- what is left for an iterator to yield, at most -/
def budget (st : RState) : Nat :=
  match st.index with
  | some idx => idx.length - st.nextShape
  | none => match st.currentPos with
    | none => 0
    | some _ => (st.data.length - st.srcPos) / 12 + 1

theorem readHere_budget (o : Orient) (tg : Target) (st : RState) (hi : st.index = none) (hc : st.currentPos ≠ none) :
    budget (st.readHere o tg).1 < budget st := by
  unfold RState.readHere
  cases hr : readOneShape o tg (st.data.drop st.srcPos) with
  | ok a rest =>
    have hcons := readOneShape_c12 o tg _ _ _ hr
    simp only [List.length_drop] at hcons
    cases hcp : st.currentPos with
    | none => exact absurd hcp hc
    | some p =>
      simp only [budget, hi, hcp, Option.map_some]
      omega
  | err e =>
    cases hcp : st.currentPos with
    | none => exact absurd hcp hc
    | some p => simp only [budget, hi, hcp]; omega
  | panic s =>
    have := readOneShape_noPanic o tg (st.data.drop st.srcPos)
    rw [hr] at this; cases this

/-- every item an iterator yields strictly decreases the budget -/
theorem iterNext_budget (o : Orient) (tg : Target) (st : RState) (h : (st.iterNext o tg).2 ≠ .none) :
    budget (st.iterNext o tg).1 < budget st := by
  unfold RState.iterNext at h ⊢
  cases hi : st.index with
  | some idx =>
    simp only [hi] at h ⊢
    cases hg : idx[st.nextShape]? with
    | none => simp only [hg] at h; exact absurd rfl h
    | some e =>
      have hlt : st.nextShape < idx.length := by
        cases Nat.lt_or_ge st.nextShape idx.length with
        | inl h => exact h
        | inr hge => rw [List.getElem?_eq_none hge] at hg; cases hg
      simp only [hg]
      cases wordsToBytes e.offset with
      | none => simp only [budget, hi]; omega
      | some start =>
        simp only
        have hb : ∀ st2 : RState, st2.index = some idx → st2.nextShape = st.nextShape + 1 →
            budget (st2.readHere o tg).1 < budget st := by
          intro st2 h2 h3
          have : (st2.readHere o tg).1.index = some idx ∧ (st2.readHere o tg).1.nextShape = st.nextShape + 1 := by
            unfold RState.readHere
            cases readOneShape o tg (st2.data.drop st2.srcPos) <;> exact ⟨h2, h3⟩
          simp only [budget, this.1, this.2, hi]
          omega
        split
        · exact hb _ rfl rfl
        · exact hb _ rfl rfl
  | none =>
    simp only [hi] at h ⊢
    cases hcp : st.currentPos with
    | none => simp only [hcp] at h; exact absurd rfl h
    | some p =>
      simp only [hcp] at h ⊢
      split
      · rename_i hle; simp only [hle, if_true] at h; exact absurd rfl h
      · exact readHere_budget o tg st hi (by rw [hcp]; simp)

/-- MAIN (termination): however much fuel the caller has, an iterator yields at most `budget`
items — at most one per index entry, or one per 12 source bytes plus one error -/
theorem iterAll_bounded (o : Orient) (tg : Target) (fuel : Nat) (st : RState) :
    (st.iterAll o tg fuel).2.length ≤ budget st := by
  induction fuel generalizing st with
  | zero => simp [RState.iterAll]
  | succ fuel ih =>
    unfold RState.iterAll
    cases hn : st.iterNext o tg with
    | mk st1 out =>
      have hb := iterNext_budget o tg st
      rw [hn] at hb
      have ih1 := ih st1
      cases out with
      | none => simp
      | shape s => have hlt : budget st1 < budget st := hb (by simp); simp only [List.length_cons]; omega
      | err e => have hlt : budget st1 < budget st := hb (by simp); simp only [List.length_cons]; omega
      | unit => have hlt : budget st1 < budget st := hb (by simp); simp only [List.length_cons]; omega
      | count n => have hlt : budget st1 < budget st := hb (by simp); simp only [List.length_cons]; omega
      | panic s => have hlt : budget st1 < budget st := hb (by simp); simp only [List.length_cons]; omega

theorem budget_le_input (st : RState) :
    budget st ≤ st.data.length / 12 + (match st.index with | some idx => idx.length | none => 0) + 1 := by
  unfold budget
  cases st.index with
  | some idx => simp only; omega
  | none =>
    simp only
    cases st.currentPos with
    | none => simp only; omega
    | some p =>
      simp only
      have : (st.data.length - st.srcPos) / 12 ≤ st.data.length / 12 := Nat.div_le_div_right (by omega)
      omega

/-- and the index itself is no longer than its file: one entry per 8 bytes read -/
theorem index_le_shx (shx : Bytes) (idx : List IndexEntry) (rest : Bytes) (h : readIndexFile shx = .ok idx rest) :
    8 * idx.length ≤ shx.length := by
  unfold readIndexFile at h
  obtain ⟨hd, r1, _, h2⟩ := bind_ok h
  cases hw : wordsToBytes hd.fileLength with
  | none => rw [hw] at h2; simp [Dec.fail] at h2
  | some b =>
    rw [hw] at h2
    simp only at h2
    have hr1 : r1.length ≤ shx.length := by
      have := (Consumes.bind0 (d := readHeader) (f := fun _ => Dec.pure ()) (by
        unfold readHeader
        exact Consumes.bind0 c0_i32BE fun _ => Consumes.ite (Consumes.fail _ _)
          (Consumes.bind0 ((Consumes.take 20).weaken (by omega)) fun _ => Consumes.bind0 c0_i32BE fun _ =>
           Consumes.bind0 c0_i32LE fun _ => Consumes.bind0 (readShapeType_c4.weaken (by omega)) fun _ =>
           Consumes.bind0 c0_f64 fun _ => Consumes.bind0 c0_f64 fun _ => Consumes.bind0 c0_f64 fun _ =>
           Consumes.bind0 c0_f64 fun _ => Consumes.bind0 c0_f64 fun _ => Consumes.bind0 c0_f64 fun _ =>
           Consumes.bind0 c0_f64 fun _ => Consumes.bind0 c0_f64 fun _ => Consumes.pure _)) (fun _ => Consumes.pure _))
        shx () r1 (by unfold Dec.bind; rw [‹readHeader shx = Res.ok hd r1›]; rfl)
      omega
    -- each repetition consumes 8 bytes
    have gen : ∀ (n : Nat) (bs : Bytes) (l : List IndexEntry) (r : Bytes),
        repeatN n readIndexEntry bs = .ok l r → 8 * l.length + r.length ≤ bs.length := by
      intro n
      induction n with
      | zero => intro bs l r hh; simp only [Dec.repeatN, Dec.pure, Res.ok.injEq] at hh; obtain ⟨rfl, rfl⟩ := hh; simp
      | succ n ih =>
        intro bs l r hh
        unfold Dec.repeatN at hh
        obtain ⟨e, r2, he, hh2⟩ := bind_ok hh
        obtain ⟨l2, r3, hl2, hh3⟩ := bind_ok hh2
        simp only [Dec.pure, Res.ok.injEq] at hh3
        obtain ⟨rfl, rfl⟩ := hh3
        have h8 : r2.length + 8 ≤ bs.length := by
          have : Consumes readIndexEntry (4 + (4 + 0)) := Consumes.bind Consumes.i32BE fun _ =>
            Consumes.bind Consumes.i32BE fun _ => Consumes.pure _
          exact this bs e r2 he
        have := ih r2 l2 r3 hl2
        simp only [List.length_cons]; omega
    have := gen _ r1 idx rest h2
    omega

/-- non-vacuity / the witness that motivated the repair: a record header declaring 2^30 words is
refused with an error, not a panic (the doubling would overflow `i32`) -/
example (o : Orient) : ∃ e, readOneShape o .generic (encI32BE 1 ++ encI32BE 1073741824 ++ [0, 0, 0, 0]) = .err e := by
  refine ⟨.recSize, ?_⟩
  unfold readOneShape
  rw [List.append_assoc, bind_exact (i32BE_enc 1 (by decide)), bind_exact (i32BE_enc _ (by decide))]
  rfl

end Shp.C07

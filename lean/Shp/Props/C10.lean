/-
C10 — a writer holds one shape type; a rejected write changes nothing.
-/
import Shp.Lemmas.History
namespace Shp.C10
open Shp

/-- a write of another type than the file's fails with the mismatch error naming the file's type
(requested) and the offered type (actual), and leaves the WHOLE world — state and both
destinations, hence every byte and every position — untouched: no I/O at all. -/
theorem rejected_write_changes_nothing (w : World) (s : Shape)
    (hn : w.st.header.shapeType ≠ .nullShape) (ht : w.st.header.shapeType ≠ s.writeType) :
    w.call (.writeShape s) = (w, .error (.mismatch w.st.header.shapeType s.writeType)) ∧
    plan w.st (.writeShape s) = .error (.mismatch w.st.header.shapeType s.writeType) :=
  ⟨call_write_rejected w s hn ht, plan_write_rejected w.st s hn ht⟩

/-- in any reachable state: the file's type is the type of the first accepted shape, and a shape of
another type is rejected -/
theorem reachable_rejects (hasShx : Bool) (cs : List WCall) (hc : NonNullCalls cs) (s : Shape)
    (hne : acceptedOf cs ≠ []) (ht : fileTypeOf (acceptedOf cs) ≠ s.writeType) :
    let w := (World.init hasShx).run cs
    w.call (.writeShape s) = (w, .error (.mismatch (fileTypeOf (acceptedOf cs)) s.writeType)) := by
  intro w
  have h := ((WInv.init hasShx).run cs hc).1
  have hst : w.st.header.shapeType = fileTypeOf (acceptedOf cs) := h.shapeType
  have hnn : w.st.header.shapeType ≠ .nullShape := by
    rw [hst]
    have := h.homog
    unfold acceptedOf at hne ⊢
    cases hacc : List.foldl acceptStep [] cs with
    | nil => exact absurd hacc hne
    | cons a as => rw [hacc] at this; exact this.1
  have := call_write_rejected w s hnn (by rw [hst]; exact ht)
  rw [hst] at this
  exact this

/-- the world after a history equals the world after the same history with the rejected calls
removed: identical bytes in both destinations, identical positions, identical state -/
theorem run_eq_run_kept (w : World) (ss : List Shape) (h : WInv w ss) (cs : List WCall) (hc : NonNullCalls cs) :
    w.run cs = w.run (keptFrom ss cs) := by
  induction cs generalizing w ss with
  | nil => rfl
  | cons c cs ih =>
    have hc' : NonNullCalls cs := fun x hx => hc x (List.mem_cons_of_mem _ hx)
    have h1 := (h.call c (hc c List.mem_cons_self)).1
    cases c with
    | finalize =>
      simp only [keptFrom, World.run, List.foldl_cons]
      exact ih (w.call .finalize).1 ss h1 hc'
    | writeShape s =>
      by_cases ha : accepts ss s
      · simp only [keptFrom, ha, if_true, World.run, List.foldl_cons]
        simp only [acceptStep, ha, if_true] at h1
        exact ih _ _ h1 hc'
      · simp only [keptFrom, ha, if_false, World.run, List.foldl_cons]
        simp only [acceptStep, ha, if_false] at h1
        have hne : ss ≠ [] := fun e => ha (Or.inl e)
        have hnn : w.st.header.shapeType ≠ .nullShape := by
          rw [h.shapeType]
          cases ss with
          | nil => exact absurd rfl hne
          | cons a as => exact h.homog.1
        have hrej := call_write_rejected w s hnn (by rw [h.shapeType]; exact fun e => ha (Or.inr e))
        rw [hrej]
        exact ih w ss h hc'

theorem history_eq_history_without_rejected (hasShx : Bool) (cs : List WCall) (hc : NonNullCalls cs) :
    (World.init hasShx).run cs = (World.init hasShx).run (keptFrom [] cs) :=
  run_eq_run_kept _ [] (WInv.init hasShx) cs hc

/-- `ShapeWriter::write_shapes(self, container)`: `write_shape` for each element, stopping at the
first error; the writer is consumed, so it is dropped on every path -/
def writeShapes : World → List Shape → World × Except Err Unit
  | w, [] => (w.drop, .ok ())
  | w, s :: ss =>
    match w.call (.writeShape s) with
    | (w', .ok ()) => writeShapes w' ss
    | (w', .error e) => (w'.drop, .error e)

/-- the bulk call offered shapes of another type than the file's: the mismatch error, and the
files left behind are exactly those of dropping the writer at that point — the offered shapes,
the first as well as those after it, leave no trace -/
theorem write_shapes_rejected (w : World) (s : Shape) (ss : List Shape)
    (hn : w.st.header.shapeType ≠ .nullShape) (ht : w.st.header.shapeType ≠ s.writeType) :
    writeShapes w (s :: ss) = (w.drop, .error (.mismatch w.st.header.shapeType s.writeType)) := by
  simp only [writeShapes, call_write_rejected w s hn ht]

/-- on any reachable writer: after a history that accepted the shapes `acc` (not empty), a bulk
call whose first shape has another type leaves the complete files of `acc` -/
theorem write_shapes_rejected_files (hasShx : Bool) (cs : List WCall) (hc : NonNullCalls cs) (s : Shape)
    (ss : List Shape) (hne : acceptedOf cs ≠ []) (ht : fileTypeOf (acceptedOf cs) ≠ s.writeType) :
    let w := (World.init hasShx).run cs
    (writeShapes w (s :: ss)).2 = .error (.mismatch (fileTypeOf (acceptedOf cs)) s.writeType) ∧
    (writeShapes w (s :: ss)).1.shp.data = shpFile (acceptedOf cs) := by
  intro w
  have hrej := reachable_rejects hasShx cs hc s hne ht
  have hinv := ((WInv.init hasShx).run cs hc).1
  have hdrop := WInv.drop hinv
  simp only [writeShapes]
  rw [show w.call (.writeShape s) = _ from hrej]
  exact ⟨rfl, hdrop.1⟩

/-- non-vacuity: a Point file rejects a PolylineZ, naming both types -/
example : plan { WState.init true with header := { Header.default with shapeType := .point } }
    (.writeShape (.polyline .xyzm BBox.default [])) = .error (.mismatch .point .polylineZ) := by
  rfl

end Shp.C10

/-
C13 on the files of C03: every well-formed whitepaper file (independent encoder: optional M blocks
absent, null records, any stored boxes and record numbers, trailing bytes), cut at ANY length from
100 bytes on and read sequentially.
-/
import Shp.Props.C13
import Shp.Props.C03
namespace Shp.C13
open Shp Spec

theorem truncated_spec_file (o : Orient) (f : File) (h : C03.FileWF f) (t : Nat) (h100 : 100 ≤ t)
    (ht : t ≤ (encodeFile f).length) :
    ∃ st k, RState.open ((encodeFile f).take t) none = .ok st ∧ k ≤ (C03.expected o f).length ∧
      (st.iterAll o .generic st.fuel).2 =
        ((C03.expected o f).take k).map ROut.shape ++
          (if k < (C03.expected o f).length then [ROut.err .io] else []) := by
  have hev := C03.body_even f.records f.typeCode h.recs
  have hsm := h.small
  have henc : encodeFile f = (C03.headerOf f).enc ++ (f.records.flatMap Spec.encRecord ++ f.trailing) := by
    unfold encodeFile
    simp only []
    rw [C03.encHeader_eq f h, List.append_assoc]
  have hhdr := readHeader_enc (C03.headerOf f) (by unfold InI32 C03.headerOf; simp only; omega)
    (by unfold InI32 C03.headerOf; simp) (f.records.flatMap Spec.encRecord ++ f.trailing)
  have hseq := C03.seq_spec_records o f.typeCode f.records (C03.headerOf f).enc f.trailing h.recs
  rw [henc] at ht ⊢
  refine truncated_sequential_any_file o .generic _ (C03.headerOf f) _ (C03.expected o f) hhdr
    (by simp only [C03.headerOf]; omega) ?_ t h100 ht
  simp only [List.length_append, Header.enc_length, C03.headerOf] at hseq ⊢
  have e1 : (2 * (((100 + (f.records.flatMap Spec.encRecord).length) / 2 : Nat) : Int)).toNat =
      100 + (f.records.flatMap Spec.encRecord).length := by omega
  rw [e1]
  exact hseq

end Shp.C13

/-
C02 (decoder side) — an independent STRICT validator accepts every written .shp and recovers the
geometry handed to the writer.

`Shp.Spec.decodeFile` is the strict whitepaper decoder (file code 9994, five zero words, length
field = real length, version 1000, a legal type, records numbered 1..n without gaps, content
lengths exact, every block of the record's type present, nothing left over).  It is proved to
invert the whitepaper encoder on every strict file value (`Spec.decodeFile_encodeFile`); with the
refinement of `C02.written_shp_is_whitepaper_encoding` this gives: the decoder SUCCEEDS on the
bytes the writer leaves and returns the records of the shapes handed in, numbered 1..n, each
without the fields its type does not have (`Rec.canon`).
-/
import Shp.Lemmas.SpecCodec3
import Shp.Props.C02
namespace Shp.C02
open Shp Spec

/-- the format's own limit: the file length fits the header's length field (16-bit words in an i32) -/
def Fits (ss : List Shape) : Prop := 100 + 2 * totalWords ss < 4294967296

theorem bits_ok (f : F64) : Ok64 (bits f) := by
  unfold Ok64 bits; exact f.bits.toNat_lt

theorem toV_ok (p : Pt) : p.toV.Ok := ⟨bits_ok _, bits_ok _, bits_ok _, bits_ok _⟩

theorem parts_ok (parts : List (List Pt)) : ∀ v ∈ (parts.map (List.map Pt.toV)).flatten, v.Ok := by
  intro v hv
  simp only [List.mem_flatten, List.mem_map] at hv
  obtain ⟨l, ⟨p, _, rfl⟩, hv⟩ := hv
  simp only [List.mem_map] at hv
  obtain ⟨q, _, rfl⟩ := hv
  exact toV_ok q

theorem total_toV (parts : List (List Pt)) : total (parts.map (List.map Pt.toV)) = totalPoints parts := by
  simp [total, totalPoints, List.map_map, Function.comp_def]

theorem total_toV' {α : Type} (f : α → List Pt) (l : List α) :
    total (l.map (List.map Pt.toV ∘ f)) = (l.map (List.length ∘ f)).sum := by
  simp [total, List.map_map, Function.comp_def]

theorem mem_toV_ok (ps : List Pt) (x : List V) (h : ps.map Pt.toV = x) (v : V) (hv : v ∈ x) : v.Ok := by
  subst h
  simp only [List.mem_map] at hv
  obtain ⟨q, _, rfl⟩ := hv
  exact toV_ok q

theorem specRec_strict (k : Nat) (s : Shape) (hk : k < 2147483648) (hsz : s.sizeInBytes < 4294967296) :
    (specRec k s).Strict s.writeType.code.toNat := by
  have hkI : Spec.InI32 (k : Int) := by unfold Spec.InI32; omega
  cases s with
  | null =>
    simp [specRec, Rec.Strict, typeInfo, hkI]
  | point d p =>
    cases d <;>
      simp [specRec, Rec.Strict, typeInfo, hkI, Shape.writeType, Shape.variant, Variant.concreteType,
        ShapeType.code, toV_ok]
  | multipoint d b pts =>
    have h1 := parts_ok [pts]
    have h2 := total_toV [pts]
    simp only [List.map_cons, List.map_nil, totalPoints_singleton] at h1 h2
    cases d <;>
      simp [Shape.sizeInBytes, sizeInBytesTerm, Shape.shapetype, Shape.variant, Variant.shapetype,
        Shape.numParts, Shape.numPoints, Shape.parts] at hsz <;>
      simp [specRec, Rec.Strict, typeInfo, hkI, Shape.writeType, Shape.variant, Variant.concreteType,
        ShapeType.code, bits_ok, Shape.parts, h2, totalPoints_singleton] <;>
      exact ⟨fun a _ => toV_ok a, by omega⟩
  | polyline d b parts =>
    have h1 := parts_ok parts
    have h2 := total_toV parts
    cases d <;>
      simp [Shape.sizeInBytes, sizeInBytesTerm, Shape.shapetype, Shape.variant, Variant.shapetype,
        Shape.numParts, Shape.numPoints, Shape.parts] at hsz <;>
      simp [specRec, Rec.Strict, typeInfo, hkI, Shape.writeType, Shape.variant, Variant.concreteType,
        ShapeType.code, bits_ok, Shape.parts, h2] <;>
      exact ⟨fun v a _ x _ h => h ▸ toV_ok x, by unfold totalPoints; omega, by omega⟩
  | polygon d b rings =>
    have h1 := parts_ok (rings.map (·.2))
    have h2 := total_toV (rings.map (·.2))
    cases d <;>
      simp [Shape.sizeInBytes, sizeInBytesTerm, Shape.shapetype, Shape.variant, Variant.shapetype,
        Shape.numParts, Shape.numPoints, Shape.parts] at hsz <;>
      simp [specRec, Rec.Strict, typeInfo, hkI, Shape.writeType, Shape.variant, Variant.concreteType,
        ShapeType.code, bits_ok, Shape.parts] <;>
      exact ⟨fun v x _ x2 _ h hv => mem_toV_ok x2 x h v hv, by rw [total_toV']; omega, by omega⟩
  | multipatch b patches =>
    have h1 := parts_ok (patches.map (·.2))
    have h2 := total_toV (patches.map (·.2))
    simp [Shape.sizeInBytes, sizeInBytesTerm, Shape.shapetype, Shape.variant, Variant.shapetype,
        Shape.numParts, Shape.numPoints, Shape.parts] at hsz
    simp [specRec, Rec.Strict, typeInfo, hkI, Shape.writeType, Shape.variant, Variant.concreteType,
        ShapeType.code, bits_ok, Shape.parts]
    exact ⟨fun v x _ x2 _ h hv => mem_toV_ok x2 x h v hv, by rw [total_toV']; omega, by omega,
      fun k x _ _ h => h ▸ (by cases x <;> decide)⟩

theorem specRec_number (k : Nat) (s : Shape) : (specRec k s).number = (k : Int) := by
  cases s <;> rfl

theorem size_le_totalWords (ss : List Shape) : ∀ s ∈ ss, s.sizeInBytes ≤ 2 * totalWords ss := by
  induction ss with
  | nil => simp
  | cons a as ih =>
    intro s hs
    simp only [List.mem_cons] at hs
    simp only [totalWords, recordSizeWords]
    rcases hs with rfl | hs
    · omega
    · have := ih s hs; omega

theorem specRecs_strict (t : ShapeType) (k : Nat) (ss : List Shape) (hty : ∀ s ∈ ss, s.writeType = t)
    (hk : k + ss.length ≤ 2147483648) (hsz : ∀ s ∈ ss, s.sizeInBytes < 4294967296) :
    ∀ r ∈ specRecs k ss, r.Strict t.code.toNat := by
  induction ss generalizing k with
  | nil => simp [specRecs]
  | cons s ss ih =>
    intro r hr
    simp only [specRecs, List.mem_cons] at hr
    simp only [List.length_cons] at hk
    rcases hr with rfl | hr
    · have := specRec_strict k s (by omega) (hsz s List.mem_cons_self)
      rwa [hty s List.mem_cons_self] at this
    · exact ih (k + 1) (fun x hx => hty x (List.mem_cons_of_mem _ hx)) (by omega)
        (fun x hx => hsz x (List.mem_cons_of_mem _ hx)) r hr

theorem specRecs_numbered (k : Nat) (ss : List Shape) : Numbered k (specRecs k ss) := by
  induction ss generalizing k with
  | nil => trivial
  | cons s ss ih => exact ⟨specRec_number k s, ih (k + 1)⟩

theorem specFile_strict (ss : List Shape) (h : Homog ss) (hfit : Fits ss) : (specFile ss).Strict := by
  have hty : ∀ s ∈ ss, s.writeType = fileTypeOf ss := by
    cases ss with
    | nil => simp
    | cons a as =>
      intro s hs
      simp only [List.mem_cons] at hs
      rcases hs with rfl | hs
      · rfl
      · exact h.2 s hs
  unfold Fits at hfit
  have hlen := length_le_totalWords ss
  have hbody : ((specRecs 1 ss).flatMap Spec.encRecord).length = 2 * totalWords ss := by
    rw [← recordsFrom_spec _ 1 ss hty, recordsFrom_length]
  refine ⟨rfl, ?_, rfl, ?_, ?_, specRecs_numbered 1 ss, ?_⟩
  · simp only [specFile]
    cases fileTypeOf ss <;> decide
  · intro b hb
    simp only [specFile, List.mem_cons, List.not_mem_nil, or_false] at hb
    rcases hb with rfl | rfl | rfl | rfl | rfl | rfl | rfl | rfl <;> exact bits_ok _
  · exact specRecs_strict (fileTypeOf ss) 1 ss hty (by omega)
      (fun s hs => by have := size_le_totalWords ss s hs; omega)
  · show 100 + ((specRecs 1 ss).flatMap Spec.encRecord).length < 4294967296
    rw [hbody]; exact hfit

/-- MAIN (decoder side of C02): the strict whitepaper validator ACCEPTS the .shp the writer leaves
behind — for any type and any number of shapes within the format's size limit — and what it decodes
is the list of the shapes handed to the writer, numbered 1..n, in order. -/
theorem written_shp_is_accepted_by_strict_validator (ss : List Shape) (h : Homog ss) (hfit : Fits ss) :
    Spec.decodeFile (shpFile ss) = some (specFile ss).canon := by
  rw [written_shp_is_whitepaper_encoding ss h]
  exact decodeFile_encodeFile _ (specFile_strict ss h hfit)

/-- the decoded records are one per shape handed in, in order -/
theorem accepted_record_count (ss : List Shape) : (specFile ss).canon.records.length = ss.length := by
  have : ∀ k, (specRecs k ss).length = ss.length := by
    induction ss with
    | nil => intro k; rfl
    | cons s ss ih => intro k; simp [specRecs, ih]
  simp [File.canon, specFile, this]

/-- canonicalisation only drops what the type does not have: a record of a type with Z and M
(PointZ, PolylineZ, PolygonZ, MultipointZ, Multipatch) decodes to exactly the record handed in -/
theorem canon_id_zm (r : Rec) (fam : Nat) (hi : typeInfo r.typeCode = some (true, true, fam)) (hf : 2 ≤ fam)
    (hm : r.mPresent = true) (hk : fam ≠ 5 → r.kinds = []) : r.canon = r := by
  have hv : r.parts.map (List.map (V.canon true true)) = r.parts := by
    have : ∀ v : V, V.canon true true v = v := fun v => rfl
    simp [funext this]
  unfold Rec.canon
  rw [hi]
  match fam, hf with
  | n + 2, _ =>
    simp only [if_true, hv]
    by_cases h5 : n + 2 = 5
    · cases r; simp_all
    · cases r; simp_all

/-- non-vacuity: a concrete two-record PolylineZ file is strict, and the decoder returns it -/
example :
    let sh := Shape.polyline .xyzm BBox.default [[Pt.default, Pt.default], [Pt.default, Pt.default, Pt.default]]
    Homog [sh, sh] ∧ Fits [sh, sh] := by
  refine ⟨⟨by decide, by intro x hx; simp at hx; subst hx; rfl⟩, by unfold Fits; decide⟩

end Shp.C02

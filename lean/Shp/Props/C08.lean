/-
C08 — shapes and attribute rows stay paired one-to-one through write and read.
The full statement is FALSE of the code as it stands (see `row_rejection_breaks_pairing`: a row
rejected by dbase leaves a shape without a row; recorded as a known finding, it cannot be repaired
inside this crate because dbase has by then emitted part of the row).  What is proved is the
statement restricted to histories in which dbase accepts every row it is offered.
-/
import Shp.Model.Pairs
import Shp.Lemmas.History
namespace Shp.C08
open Shp

/-- the calls of a pair history, as shape-writer calls -/
def shapeCalls (h : List (Shape × Bool)) : List WCall := h.map fun p => .writeShape p.1

/-- PARTIAL (rows never rejected): for EVERY history of write_shape_and_record calls — shapes of
the file's type and shapes of other types interleaved in any way — the number of rows equals the
number of records in the .shp and of entries in the .shx, after every call. -/
theorem counts_equal_partial (h : List (Shape × Bool)) (hrows : ∀ p ∈ h, p.2 = true)
    (hnn : ∀ p ∈ h, p.1 ≠ .null) (pw : PWorld) (ss : List Shape) (hinv : WInv pw.w ss) (hr : pw.rows = ss.length) :
    ∃ ss', WInv (pw.run h).w ss' ∧ (pw.run h).rows = ss'.length ∧ ss' = (shapeCalls h).foldl acceptStep ss := by
  induction h generalizing pw ss with
  | nil => exact ⟨ss, hinv, hr, rfl⟩
  | cons p rest ih =>
    obtain ⟨s, ok⟩ := p
    have hok : ok = true := hrows (s, ok) List.mem_cons_self
    subst hok
    have hs : s ≠ .null := hnn (s, true) List.mem_cons_self
    have hcall := hinv.call (.writeShape s) (by intro e; cases e; exact hs rfl)
    simp only [PWorld.run, shapeCalls, List.map_cons, List.foldl_cons]
    by_cases ha : accepts ss s
    · -- accepted shape: one more record, one more row
      have hw := hinv.write s (s.writeType_ne_null hs) ha
      have hres : (pw.w.call (.writeShape s)).2 = .ok () := hw.1
      have hc : pw.call s true = (⟨(pw.w.call (.writeShape s)).1, pw.rows + 1⟩, .ok ()) := by
        unfold PWorld.call
        cases hcw : pw.w.call (.writeShape s) with
        | mk w' r =>
          rw [hcw] at hres
          simp only at hres
          subst hres
          simp
      rw [hc]
      have := ih (fun q hq => hrows q (List.mem_cons_of_mem _ hq)) (fun q hq => hnn q (List.mem_cons_of_mem _ hq))
        ⟨(pw.w.call (.writeShape s)).1, pw.rows + 1⟩ (ss ++ [s]) hw.2.1 (by simp [hr])
      simpa [acceptStep, ha, shapeCalls] using this
    · -- rejected shape: nothing written, no row
      have hne : ss ≠ [] := fun e => ha (Or.inl e)
      have hnn' : pw.w.st.header.shapeType ≠ .nullShape := by
        rw [hinv.shapeType]
        cases ss with
        | nil => exact absurd rfl hne
        | cons a as => exact hinv.homog.1
      have hrej := call_write_rejected pw.w s hnn' (by rw [hinv.shapeType]; exact fun e => ha (Or.inr e))
      have hc : pw.call s true = (⟨pw.w, pw.rows⟩, .error (.mismatch pw.w.st.header.shapeType s.writeType)) := by
        unfold PWorld.call; rw [hrej]
      rw [hc]
      have := ih (fun q hq => hrows q (List.mem_cons_of_mem _ hq)) (fun q hq => hnn q (List.mem_cons_of_mem _ hq))
        ⟨pw.w, pw.rows⟩ ss hinv hr
      simpa [acceptStep, ha, shapeCalls] using this

/-- through the complete writer a rejected shape's row is not written either, and nothing changes -/
theorem rejected_shape_writes_no_row (pw : PWorld) (s : Shape) (rowOk : Bool)
    (hn : pw.w.st.header.shapeType ≠ .nullShape) (ht : pw.w.st.header.shapeType ≠ s.writeType) :
    pw.call s rowOk = (pw, .error (.mismatch pw.w.st.header.shapeType s.writeType)) := by
  unfold PWorld.call
  rw [call_write_rejected pw.w s hn ht]

/-- the reader pairs shape `i` with row `i`: equal counts give back exactly the pairs -/
theorem zipRead_pairs {α β : Type} (l : List (α × β)) : zipRead (l.map (·.1)) (l.map (·.2)) = l := by
  induction l with
  | nil => rfl
  | cons a as ih => simp [zipRead, ih]

/-- WITNESS that the full statement fails (known finding `row-rejected-after-shape-committed`):
one pair whose row dbase rejects leaves one shape record and zero rows -/
theorem row_rejection_breaks_pairing :
    ∃ (s : Shape), let pw := (PWorld.init.call s false).1
      pw.rows = 0 ∧ WInv pw.w [s] := by
  refine ⟨.point .xy Pt.default, ?_⟩
  have hinv := (WInv.init true).write (.point .xy Pt.default) (by decide) (Or.inl rfl)
  have hres := hinv.1
  simp only [PWorld.call, PWorld.init]
  cases hcw : (World.init true).call (.writeShape (.point .xy Pt.default)) with
  | mk w' r =>
    rw [hcw] at hres hinv
    simp only at hres
    subst hres
    exact ⟨rfl, hinv.2.1⟩

end Shp.C08

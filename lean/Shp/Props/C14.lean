/-
C14 — with an index, records are located by the index alone.
No assumption on the physical order of the records, on gaps or filler between them, or on the
length the .shp header declares: only that each index entry points at a decodable record.
-/
import Shp.Lemmas.ReadAll
namespace Shp.C14
open Shp

/-- MAIN: iteration yields one shape per index entry, in index order, each the record stored at
that entry's offset -/
theorem iteration_follows_index (o : Orient) (tg : Target) (shp shx : Bytes) (idx : List IndexEntry)
    (shapes : List Shape) (h : Header) (rest xr : Bytes)
    (hx : readIndexFile shx = .ok idx xr) (hh : readHeader shp = .ok h rest)
    (ha : Addressable o tg shp idx shapes) :
    readAll o tg shp (some shx) = .ok shapes := by
  obtain ⟨st, hopen, hinv, hn⟩ := open_addressable o tg shp shx idx shapes h rest xr hx hh ha
  unfold readAll
  rw [hopen]
  simp only
  have hfuel : shapes.length ≤ st.nextShape + st.fuel := by
    obtain ⟨idx', hidx, hlen, _⟩ := hinv.idx
    unfold RState.fuel; rw [hidx]; simp only; omega
  rw [hinv.drain st.fuel hfuel, hn, List.drop_zero, collectShapes_shapes]

/-- in particular an index without entries yields nothing, whatever the .shp holds behind its
header (stale records, filler): the reader does not fall back to sequential reading -/
theorem empty_index_yields_nothing (o : Orient) (tg : Target) (shp shx : Bytes) (h : Header) (rest xr : Bytes)
    (hx : readIndexFile shx = .ok [] xr) (hh : readHeader shp = .ok h rest) :
    readAll o tg shp (some shx) = .ok [] :=
  iteration_follows_index o tg shp shx [] [] h rest xr hx hh
    ⟨rfl, fun i h1 _ => absurd h1 (by simp)⟩

/-- iteration agrees with random access by index and with the reported shape count -/
theorem iteration_eq_random_access (o : Orient) (tg : Target) (shp shx : Bytes) (idx : List IndexEntry)
    (shapes : List Shape) (h : Header) (rest xr : Bytes)
    (hx : readIndexFile shx = .ok idx xr) (hh : readHeader shp = .ok h rest)
    (ha : Addressable o tg shp idx shapes) :
    ∃ st, RState.open shp (some shx) = .ok st ∧ st.shapeCount = .count shapes.length ∧
      (∀ i (hi : i < shapes.length), (st.readNth o tg i).2 = .shape shapes[i]) ∧
      (∀ i, shapes.length ≤ i → (st.readNth o tg i).2 = .none) := by
  obtain ⟨st, hopen, hinv, _⟩ := open_addressable o tg shp shx idx shapes h rest xr hx hh ha
  refine ⟨st, hopen, hinv.shapeCount, ?_, ?_⟩
  · intro i hi
    obtain ⟨st', he, _, _⟩ := hinv.readNth i hi
    rw [he]
  · intro i hi
    rw [hinv.readNth_none i hi]

/-- how the hypothesis is met: an entry pointing at the start of a record written by the
writer's encoder (wherever it sits in the file, whatever follows it) addresses that record -/
theorem recordAt_of_encoded (o : Orient) (tg : Target) (pre post : Bytes) (num : Int) (s : Shape) (off : Nat)
    (hpre : pre.length = 2 * off) (hn : InI32 num) (hs : s.Sized) (hnull : s ≠ .null)
    (htg : tg.Accepts s.writeType) :
    RecordAt o tg (pre ++ encRecord num s.writeType s ++ post) ⟨off, recordSizeWords s⟩ (s.readBack o) := by
  refine ⟨by simp, (recordSizeWords s : Int), post, ?_, by omega, ?_⟩
  · have : (2 * ((off : Nat) : Int)).toNat = pre.length := by omega
    simp only [this, List.append_assoc, List.drop_left]
    exact readOneShape_encRecord o tg num s post hn hs hnull htg
  · simp only [List.length_append, C18.encRecord_length]; omega

/-- non-vacuity: an index whose FIRST entry points behind its second one (the records are not in
physical order, 34 filler bytes precede the record) addresses the record stored there -/
example (o : Orient) : ∃ (data : Bytes) (idx : List IndexEntry) (shapes : List Shape),
    RecordAt o .generic data idx[0]! shapes[0]! ∧ (idx[0]!).offset > (idx[1]!).offset := by
  let a := Shape.point .xy Pt.default
  refine ⟨zeros 134 ++ encRecord 1 a.writeType a ++ [], [⟨67, recordSizeWords a⟩, ⟨50, recordSizeWords a⟩],
    [a.readBack o, a.readBack o], ?_, by decide⟩
  exact recordAt_of_encoded o .generic (zeros 134) [] 1 a 67 (by simp [zeros]) (by decide) (by decide)
    (by simp [a]) trivial

end Shp.C14

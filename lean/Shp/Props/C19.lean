/-
C19 — shape type codes form the ESRI table, for every integer (hence every 32-bit value).
All statements are about the tables GENERATED from src/lib.rs on this run.
-/
import Shp.Model.Header
namespace Shp.C19
open Shp

/-- the ESRI whitepaper's table, written out: code, name, has Z, has M, multi-part -/
def esri : List (Int × String × Bool × Bool × Bool) :=
  [ (0, "NullShape", false, false, true),
    (1, "Point", false, false, false), (3, "Polyline", false, false, true),
    (5, "Polygon", false, false, true), (8, "Multipoint", false, false, false),
    (11, "PointZ", true, true, false), (13, "PolylineZ", true, true, true),
    (15, "PolygonZ", true, true, true), (18, "MultipointZ", true, true, false),
    (21, "PointM", false, true, false), (23, "PolylineM", false, true, true),
    (25, "PolygonM", false, true, true), (28, "MultipointM", false, true, false),
    (31, "Multipatch", true, false, true) ]

def esriCodes : List Int := esri.map (·.1)

/-- generic fact about `match` tables: a hit is one of the arms -/
theorem lookupCode_mem {α : Type} (tb : List (Int × α)) (c : Int) (a : α)
    (h : lookupCode tb c = some a) : (c, a) ∈ tb := by
  induction tb with
  | nil => simp [lookupCode] at h
  | cons e rest ih =>
    obtain ⟨k, b⟩ := e
    unfold lookupCode at h
    by_cases hk : c = k
    · rw [if_pos hk] at h
      cases h; subst hk; exact List.mem_cons_self
    · rw [if_neg hk] at h
      exact List.mem_cons_of_mem _ (ih h)

/-- encode then decode returns the type -/
theorem ofCode_code (t : ShapeType) : ShapeType.ofCode t.code = some t := by
  cases t <;> decide

/-- every arm of `ShapeType::from` maps a type's own discriminant to it -/
theorem codeTable_sound : ∀ e ∈ ShapeType.codeTable, e.2.code = e.1 := by decide

/-- decode then re-encode returns the code: for EVERY integer `c` -/
theorem code_ofCode (c : Int) (t : ShapeType) (h : ShapeType.ofCode c = some t) : t.code = c :=
  codeTable_sound (c, t) (lookupCode_mem _ c t h)

/-- decoding succeeds exactly on the type's own code -/
theorem ofCode_eq_some_iff (c : Int) (t : ShapeType) : ShapeType.ofCode c = some t ↔ c = t.code :=
  ⟨fun h => (code_ofCode c t h).symm, fun h => h ▸ ofCode_code t⟩

theorem code_injective (a b : ShapeType) (h : a.code = b.code) : a = b := by
  have := ofCode_code a
  rw [h, ofCode_code b] at this
  exact (Option.some.inj this).symm

/-- the image of `code` is exactly the ESRI list -/
theorem code_mem_esri (t : ShapeType) : t.code ∈ esriCodes := by
  cases t <;> decide

theorem esri_mem_code (c : Int) (h : c ∈ esriCodes) : ∃ t : ShapeType, t.code = c := by
  simp only [esriCodes, esri, List.map, List.mem_cons, List.mem_nil_iff, or_false] at h
  rcases h with h | h | h | h | h | h | h | h | h | h | h | h | h | h <;> subst h <;>
    first
    | exact ⟨ShapeType.nullShape, rfl⟩ | exact ⟨ShapeType.point, rfl⟩ | exact ⟨ShapeType.polyline, rfl⟩ | exact ⟨ShapeType.polygon, rfl⟩
    | exact ⟨ShapeType.multipoint, rfl⟩ | exact ⟨ShapeType.pointZ, rfl⟩ | exact ⟨ShapeType.polylineZ, rfl⟩ | exact ⟨ShapeType.polygonZ, rfl⟩
    | exact ⟨ShapeType.multipointZ, rfl⟩ | exact ⟨ShapeType.pointM, rfl⟩ | exact ⟨ShapeType.polylineM, rfl⟩ | exact ⟨ShapeType.polygonM, rfl⟩
    | exact ⟨ShapeType.multipointM, rfl⟩ | exact ⟨ShapeType.multipatch, rfl⟩

/-- every other integer is rejected -/
theorem ofCode_none_of_not_esri (c : Int) (h : c ∉ esriCodes) : ShapeType.ofCode c = none := by
  cases hc : ShapeType.ofCode c with
  | none => rfl
  | some t =>
    have := code_ofCode c t hc
    exact absurd (this ▸ code_mem_esri t) h

theorem ofCode_some_of_esri (c : Int) (h : c ∈ esriCodes) : (ShapeType.ofCode c).isSome := by
  obtain ⟨t, rfl⟩ := esri_mem_code c h
  simp [ofCode_code]

/-- names and predicates are the ESRI table's (complete enumeration of the 14 types) -/
theorem row_is_esri (t : ShapeType) :
    (t.code, t.name, t.hasZ, t.hasM, t.isMultipart) ∈ esri := by
  cases t <;> decide

/-- there are exactly 14 types and the table has no duplicate code -/
theorem esriCodes_nodup : esriCodes.Nodup := by decide

/-- an invalid code read from a file surfaces as `InvalidShapeType(code)` carrying that code -/
theorem readShapeType_bad (c : Int) (hr : InI32 c) (h : c ∉ esriCodes) (rest : Bytes) :
    readShapeType (encI32LE c ++ rest) = .err (.shapeType c) := by
  have hdec : Dec.i32LE (encI32LE c ++ rest) = .ok c rest := by
    simp only [Dec.i32LE, Dec.u32LE, encI32LE, encU32LE, List.cons_append, List.nil_append, Res.map]
    rw [decU32LE_enc _ (ofI32_lt c), toI32_ofI32 hr]
  unfold readShapeType Dec.bind
  rw [hdec]
  simp [ofCode_none_of_not_esri c h, Dec.fail]

theorem readShapeType_good (t : ShapeType) (rest : Bytes) :
    readShapeType (encI32LE t.code ++ rest) = .ok t rest := by
  have hr : InI32 t.code := by cases t <;> decide
  have hdec : Dec.i32LE (encI32LE t.code ++ rest) = .ok t.code rest := by
    simp only [Dec.i32LE, Dec.u32LE, encI32LE, encU32LE, List.cons_append, List.nil_append, Res.map]
    rw [decU32LE_enc _ (ofI32_lt _), toI32_ofI32 hr]
  unfold readShapeType Dec.bind
  rw [hdec]
  simp [ofCode_code, Dec.pure]

/-- non-vacuity: 26 and -1 are rejected, 25 is PolygonM -/
example : ShapeType.ofCode 26 = none ∧ ShapeType.ofCode (-1) = none ∧ ShapeType.ofCode 25 = some .polygonM := by
  decide

/-- ... and this holds for a RECORD read generically or as any of the concrete types: the code is
decoded before the requested type is compared, so an invalid code is never reported as a type
mismatch -/
theorem readTarget_bad_code (o : Orient) (tg : Target) (recSize : Int) (c : Int) (hr : InI32 c)
    (h : c ∉ esriCodes) (rest : Bytes) :
    readTarget o tg recSize (encI32LE c ++ rest) = .err (.shapeType c) := by
  have hb := readShapeType_bad c hr h rest
  cases tg with
  | generic => simp only [readTarget, readShape, Dec.bind, hb]
  | typed t => simp only [readTarget, readShapeAs, Dec.bind, hb]

/-- the whole record (header, then content starting with the bad code), under any target -/
theorem readOneShape_bad_code (o : Orient) (tg : Target) (num words : Int) (hn : InI32 num) (hw : InI32 words)
    (hpos : 0 ≤ words) (hsmall : 2 * words < 2147483648) (c : Int) (hr : InI32 c) (h : c ∉ esriCodes) (rest : Bytes) :
    readOneShape o tg (encI32BE num ++ encI32BE words ++ encI32LE c ++ rest) = .err (.shapeType c) := by
  have d1 : ∀ (v : Int) (hv : InI32 v) (r : Bytes), Dec.i32BE (encI32BE v ++ r) = .ok v r := by
    intro v hv r
    simp only [Dec.i32BE, Dec.u32BE, encI32BE, encU32BE, List.cons_append, List.nil_append, Res.map, decU32BE]
    rw [decU32LE_enc _ (ofI32_lt v), toI32_ofI32 hv]
  unfold readOneShape
  simp only [Dec.bind, List.append_assoc, d1 num hn, d1 words hw]
  have : wordsToBytes words = some (2 * words) := by unfold wordsToBytes; rw [if_neg (by omega)]
  simp only [this]
  rw [if_neg (by omega)]
  simp only [Dec.bind, readTarget_bad_code o tg (2 * words) c hr h rest]

end Shp.C19

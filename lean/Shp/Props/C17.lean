/-
C17 — memory requested while reading is proportional to the input size.
What a theorem can carry: (a) the only capacities requested from counts NOT yet backed by data are
capped by the constant the translator reads from the source; (b) every element the readers
materialise is backed by input bytes actually consumed (16 per vertex, 4 per part offset / patch
kind, 8 per index entry), so returned values are at most a small multiple of the bytes read.
The allocator, `Vec`'s growth policy and transient buffers are runtime behaviour: measured by the
counting allocator in the harness on every run (partial by nature).
-/
import Shp.Props.C07
namespace Shp.C17
open Shp Dec

/-- `vec_for_count_from_file`: elements reserved ahead of the data for a count read from the file -/
def prealloc (count : Int) : Nat := min count.toNat Const.maxPrealloc

/-- (a) never more than the cap, whatever the file says (billions of points, negative counts) -/
theorem prealloc_capped (count : Int) : prealloc count ≤ 1024 := by
  unfold prealloc
  have : Const.maxPrealloc = 1024 := rfl
  omega

/-- a counted loop returns exactly `count` elements and consumed at least `c` bytes for each -/
theorem readCounted_backed {α : Type} {d : Dec α} (c : Nat) (hd : Consumes d c) (n : Int) (bs : Bytes) (l : List α)
    (rest : Bytes) (h : readCounted n d bs = .ok l rest) :
    l.length = n.toNat ∧ rest.length + c * l.length ≤ bs.length := by
  unfold readCounted at h
  split at h
  · simp [Dec.fail] at h
  · have gen : ∀ (k : Nat) (bs : Bytes) (l : List α) (r : Bytes), repeatN k d bs = .ok l r →
        l.length = k ∧ r.length + c * l.length ≤ bs.length := by
      intro k
      induction k with
      | zero => intro bs l r hh; simp only [Dec.repeatN, Dec.pure, Res.ok.injEq] at hh; obtain ⟨rfl, rfl⟩ := hh; simp
      | succ k ih =>
        intro bs l r hh
        unfold Dec.repeatN at hh
        obtain ⟨a, r2, ha, hh2⟩ := bind_ok hh
        obtain ⟨l2, r3, hl2, hh3⟩ := bind_ok hh2
        simp only [Dec.pure, Res.ok.injEq] at hh3
        obtain ⟨rfl, rfl⟩ := hh3
        have := hd bs a r2 ha
        have := ih r2 l2 r3 hl2
        simp only [List.length_cons, Nat.mul_add, Nat.mul_one]
        omega
    exact gen _ bs l rest h

theorem readXYPt_c16 : Consumes readXYPt 16 := by
  have : Consumes readXYPt (8 + (8 + 0)) := Consumes.bind Consumes.f64 fun _ => Consumes.bind Consumes.f64 fun _ => Consumes.pure _
  simpa using this

/-- (b) vertices: a vector of `n` points exists only after `16 n` bytes were read -/
theorem points_backed (n : Int) (bs : Bytes) (l : List Pt) (rest : Bytes) (h : readXYVec n bs = .ok l rest) :
    rest.length + 16 * l.length ≤ bs.length :=
  (readCounted_backed 16 readXYPt_c16 n bs l rest h).2

/-- (b) part offsets: the parts array of `n` entries exists only after `4 n` bytes were read; a
NEGATIVE or unbacked count yields an error before anything is built -/
theorem parts_backed (bs : Bytes) (h : MultiPartHeader) (rest : Bytes) (he : readMultiPartHeader bs = .ok h rest) :
    h.partsArray.length = h.numParts.toNat ∧ rest.length + 4 * h.partsArray.length + 40 ≤ bs.length := by
  unfold readMultiPartHeader at he
  obtain ⟨b, r1, h1, he⟩ := bind_ok he
  obtain ⟨np, r2, h2, he⟩ := bind_ok he
  obtain ⟨npt, r3, h3, he⟩ := bind_ok he
  obtain ⟨pa, r4, h4, he⟩ := bind_ok he
  simp only [Dec.pure, Res.ok.injEq] at he
  obtain ⟨rfl, rfl⟩ := he
  have c1 : r1.length + 32 ≤ bs.length := by
    have : Consumes readBBoxXY (8 + (8 + (8 + (8 + 0)))) := Consumes.bind Consumes.f64 fun _ =>
      Consumes.bind Consumes.f64 fun _ => Consumes.bind Consumes.f64 fun _ => Consumes.bind Consumes.f64 fun _ => Consumes.pure _
    exact this bs b r1 h1
  have c2 := Consumes.i32LE r1 np r2 h2
  have c3 := Consumes.i32LE r2 npt r3 h3
  have c4 := readCounted_backed 4 Consumes.i32LE np r3 pa r4 h4
  exact ⟨c4.1, by simp only; omega⟩

/-- (b) the index: at most one entry per 8 bytes of `.shx` actually read -/
theorem index_backed (shx : Bytes) (idx : List IndexEntry) (rest : Bytes) (h : readIndexFile shx = .ok idx rest) :
    8 * idx.length ≤ shx.length := C07.index_le_shx shx idx rest h

/-- a count that is negative is refused before any element exists -/
theorem negative_count_refused {α : Type} (d : Dec α) (n : Int) (hn : n < 0) (bs : Bytes) :
    readCounted n d bs = .err .io := by
  unfold readCounted; simp [hn, Dec.fail]

/-! (c) The places where the READING code sizes a collection ahead of its contents (re-extracted from
`/repo/src` on every run as `Shp.allocSites`, fingerprints with the text in comments) are, on the
pinned tree:
  1. `vec_for_count_from_file`: `with_capacity(min{count, MAX_PREALLOCATED_ELEMENTS})` — `prealloc` above, capped;
  2. `MultiPartShapeReader::new`: `with_capacity(parts_array.len())` — the parts array has been read (`parts_backed`);
  3.–4. `Multipatch::read_shape_content`: `vec![_; num_parts]`, `with_capacity(num_parts)` — after the
        parts array of `num_parts` entries has been read (4 bytes each, `parts_backed`).
A change of that list is not a proof obligation (binding the same expression to a local changes
it): it makes the run explore C17 with the thorough budget, and the verdict comes from the
allocation measurements. -/

/-- non-vacuity: 2^28 declared points on a 40-byte record: refused, nothing built -/
example : readXYVec 268435456 [] = .err .io := by
  unfold readXYVec readCounted
  rw [if_neg (by decide)]
  rfl

end Shp.C17

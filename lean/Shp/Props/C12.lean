/-
C12 — destination I/O failures surface from the failing call; finalize is retryable.
Fault model: a destination fails after accepting n more bytes, at its k-th seek or at its k-th
flush (one-shot or persistent); a failing write still delivers the bytes accepted before it.
-/
import Shp.Lemmas.Faults
namespace Shp.C12
open Shp

/-! ### the failing call returns the error; without a failure nothing differs from a healthy run -/

/-- a call whose plan hits a destination failure returns `Err(IoError)` — never `Ok`, and there is
no panic outcome at all in the writer — and only the pre-I/O state change is kept -/
theorem failing_call_returns_error (fw : FWorld) (c : WCall) (p : Plan) (hp : plan fw.w.st c = .ok p)
    (hf : (fw.runOps p.ops).2 = true) :
    (fw.call c).2 = .error .io ∧ (fw.call c).1.w.st = p.pre := by
  unfold FWorld.call
  rw [hp]
  simp only [hf, if_true]
  exact ⟨trivial, trivial⟩

theorem healthy_call_returns_ok (fw : FWorld) (c : WCall) (p : Plan) (hp : plan fw.w.st c = .ok p)
    (hf : (fw.runOps p.ops).2 = false) :
    (fw.call c).2 = .ok () ∧ (fw.call c).1.w.st = p.post := by
  unfold FWorld.call
  rw [hp]
  simp only [hf, Bool.false_eq_true, if_false]
  exact ⟨trivial, trivial⟩

/-- with no fault planned the faulty world IS the healthy world -/
theorem runOps_no_fault (fw : FWorld) (ops : List (DestId × IOOp)) (h1 : fw.shpFault = .none) (h2 : fw.shxFault = .none) :
    (fw.runOps ops).2 = false ∧ (fw.runOps ops).1.w = ops.foldl World.applyOp fw.w ∧
    (fw.runOps ops).1.shpFault = .none ∧ (fw.runOps ops).1.shxFault = .none := by
  induction ops generalizing fw with
  | nil => exact ⟨rfl, rfl, h1, h2⟩
  | cons op rest ih =>
    obtain ⟨dest, o⟩ := op
    cases dest with
    | shp =>
      have hnf : fw.w.shp.applyFaulty .none fw.persistent o = (fw.w.shp.apply o, .none, false) := by
        cases o <;> rfl
      simp only [FWorld.runOps, h1, hnf, Bool.false_eq_true, if_false, List.foldl_cons, World.applyOp]
      exact ih _ rfl h2
    | shx =>
      have hnf : fw.w.shx.applyFaulty .none fw.persistent o = (fw.w.shx.apply o, .none, false) := by
        cases o <;> rfl
      simp only [FWorld.runOps, h2, hnf, Bool.false_eq_true, if_false, List.foldl_cons, World.applyOp]
      exact ih _ h1 rfl

theorem call_no_fault (fw : FWorld) (c : WCall) (h1 : fw.shpFault = .none) (h2 : fw.shxFault = .none) :
    (fw.call c).1.w = (fw.w.call c).1 ∧ (fw.call c).2 = (fw.w.call c).2 := by
  unfold FWorld.call World.call
  cases hp : plan fw.w.st c with
  | error e => exact ⟨rfl, rfl⟩
  | ok p =>
    obtain ⟨hf, hw, _, _⟩ := runOps_no_fault fw p.ops h1 h2
    simp only [hf, Bool.false_eq_true, if_false, hw]
    exact ⟨trivial, trivial⟩

/-! ### what a failed finalize leaves behind -/

/-- the destination still holds its records behind a header-sized region -/
def Mid (rest : Bytes) (d : Dst) : Prop :=
  ∃ hb : Bytes, hb.length ≤ 100 ∧ (hb.length < 100 → rest = []) ∧ d.data = hb ++ rest

theorem writeAt_zero_mid (hb rest bs : Bytes) (hl : hb.length ≤ 100) (hr : hb.length < 100 → rest = [])
    (hbs : bs.length ≤ 100) :
    ∃ hb', hb'.length ≤ 100 ∧ (hb'.length < 100 → rest = []) ∧ writeAt (hb ++ rest) 0 bs = hb' ++ rest := by
  by_cases hc : bs.length ≤ hb.length
  · refine ⟨bs ++ hb.drop bs.length, by simp; omega, fun h => hr (by simp at h; omega), ?_⟩
    simp only [writeAt, zeros, Nat.zero_sub, Nat.sub_zero, List.replicate_zero, List.append_nil, List.take_zero,
      List.nil_append, Nat.zero_add]
    rw [List.drop_append_of_le_length hc, List.append_assoc]
  · have hlt : hb.length < 100 := by omega
    have hrest := hr hlt
    subst hrest
    refine ⟨bs, hbs, fun _ => rfl, ?_⟩
    simp only [writeAt, zeros, List.append_nil, Nat.zero_sub, List.replicate_zero, List.take_zero, List.nil_append,
      Nat.zero_add]
    rw [List.drop_eq_nil_of_le (by omega), List.append_nil]

/-- every prefix of finalize's operations on one destination — seek to 0, header, seek to end,
flush — with the header write cut anywhere, leaves the records in place -/
theorem finalize_prefix_mid (rest hdr : Bytes) (hl : hdr.length = 100) (d : Dst) (hm : Mid rest d) (k cut : Nat) :
    Mid rest (d.applyPrefix [.seekStart 0, .write hdr, .seekEnd, .flush] k cut) := by
  obtain ⟨hb, h1, h2, h3⟩ := hm
  have step1 : ∀ bs : Bytes, bs.length ≤ 100 →
      Mid rest (({ d with pos := 0 } : Dst).apply (.write bs)) := by
    intro bs hbs
    obtain ⟨hb', a, b, c⟩ := writeAt_zero_mid hb rest bs h1 h2 hbs
    exact ⟨hb', a, b, by simp only [Dst.apply, h3, c]⟩
  match k with
  | 0 => exact ⟨hb, h1, h2, by simpa [Dst.applyPrefix] using h3⟩
  | 1 =>
    simp only [Dst.applyPrefix, List.take_succ_cons, List.take_zero, List.foldl_cons, List.foldl_nil, Dst.apply]
    exact step1 (hdr.take cut) (by simp; omega)
  | 2 =>
    simp only [Dst.applyPrefix, List.take_succ_cons, List.take_zero, List.foldl_cons, List.foldl_nil]
    have := step1 hdr (by omega)
    simpa [Dst.apply] using this
  | 3 =>
    simp only [Dst.applyPrefix, List.take_succ_cons, List.take_zero, List.foldl_cons, List.foldl_nil]
    obtain ⟨hb', a, b, c⟩ := step1 hdr (by omega)
    exact ⟨hb', a, b, by simpa [Dst.apply] using c⟩
  | k + 4 =>
    obtain ⟨hb', a, b, c⟩ := step1 hdr (by omega)
    refine ⟨hb', a, b, ?_⟩
    simp only [Dst.applyPrefix, List.take_succ_cons, List.take_nil, List.foldl_cons, List.foldl_nil]
    have : ([IOOp.seekStart 0, IOOp.write hdr, IOOp.seekEnd, IOOp.flush] : List IOOp)[k + 4]? = none := by simp
    rw [this]
    simpa [Dst.apply] using c

/-- rewriting the header over such a region completes the file -/
theorem rewriteHeader_mid (d : Dst) (rest hdr : Bytes) (hm : Mid rest d) (hl : hdr.length = 100) :
    (rewriteHeader d hdr).data = hdr ++ rest := by
  obtain ⟨hb, h1, h2, h3⟩ := hm
  obtain ⟨hb', a, b, c⟩ := writeAt_zero_mid hb rest hdr h1 h2 (by omega)
  simp only [rewriteHeader, Dst.apply, h3]
  have hlen : hb'.length = 100 := by
    have := congrArg List.length c
    simp only [List.length_append] at this
    have hw : (writeAt (hb ++ rest) 0 hdr).length = max 100 (hb ++ rest).length := by
      simp [writeAt, zeros, hl]; omega
    rw [hw] at this
    simp only [List.length_append] at this
    by_cases hh : hb.length < 100
    · have := h2 hh; subst this; simp at *; omega
    · omega
  -- the region is exactly the new header
  have : writeAt (hb ++ rest) 0 hdr = hdr ++ rest := by
    by_cases hh : hb.length < 100
    · have := h2 hh; subst this
      simp only [writeAt, zeros, List.append_nil, Nat.zero_sub, List.replicate_zero, List.take_zero, List.nil_append,
        Nat.zero_add]
      rw [List.drop_eq_nil_of_le (by omega), List.append_nil]
    · have h100 : hb.length = 100 := by omega
      exact writeAt_start hb hdr rest (by omega)
  rw [this]

/-- the state facts of `WInv` without any claim on positions or on the header region's content:
what holds of a writer whose last finalize failed somewhere -/
structure WInvW (w : World) (ss : List Shape) : Prop where
  recNum : w.st.recNum = ss.length + 1
  fileLength : w.st.header.fileLength = 50 + totalWords ss
  version : w.st.header.version = 1000
  shapeType : w.st.header.shapeType = fileTypeOf ss
  bbox : w.st.header.bbox = boxOf ss
  shp : Mid (recordsFrom (fileTypeOf ss) 1 ss) w.shp
  shx : w.st.hasShx = true → Mid (entriesFrom 50 ss) w.shx

theorem WInv.toW {w : World} {ss : List Shape} (h : WInv w ss) : WInvW w ss := by
  refine ⟨h.recNum, h.fileLength, h.version, h.shapeType, h.bbox, ?_, ?_⟩
  · obtain ⟨hb, hhb, hd, _⟩ := h.shp
    rcases hhb with hhb | ⟨h1, h2⟩
    · exact ⟨hb, by omega, fun hh => by omega, hd⟩
    · subst h1 h2; exact ⟨[], by simp, fun _ => rfl, hd⟩
  · intro hx
    have := h.shx
    rw [hx] at this
    simp only [if_true] at this
    obtain ⟨hb, hhb, hd, _⟩ := this
    rcases hhb with hhb | ⟨h1, h2⟩
    · exact ⟨hb, by omega, fun hh => by omega, hd⟩
    · subst h1 h2; exact ⟨[], by simp, fun _ => rfl, hd⟩

/-- MAIN (retry): from ANY state a failed finalize can leave, calling finalize again on working
destinations completes both files exactly as an undisturbed run would -/
theorem finalize_retry_completes (w : World) (ss : List Shape) (h : WInvW w ss) (hd : w.st.dirty = true) :
    (w.call .finalize).2 = .ok () ∧ (w.call .finalize).1.shp.data = shpFile ss ∧
    (w.st.hasShx = true → (w.call .finalize).1.shx.data = shxFile ss) := by
  rw [call_finalize_dirty w hd]
  have hh : hdrOf w.st = finalHeader ss := by
    unfold hdrOf finalHeader
    cases hw : w.st.header with
    | mk fl bb st v =>
      have h1 := h.fileLength; have h2 := h.version; have h3 := h.shapeType; have h4 := h.bbox
      rw [hw] at h1 h2 h3 h4
      simp only at h1 h2 h3 h4
      simp [h1, h2, h3, h4]
  have hx' : shxHdrOf w.st = finalShxHeader ss := by
    unfold shxHdrOf
    rw [hh]
    simp only [finalShxHeader, Const.headerSize, h.recNum]
    congr 1
    push_cast
    omega
  refine ⟨rfl, ?_, ?_⟩
  · simp only
    rw [rewriteHeader_mid w.shp _ _ h.shp (Header.enc_length _), hh]; rfl
  · intro hx
    simp only [hx, if_true]
    rw [rewriteHeader_mid w.shx _ _ (h.shx hx) (Header.enc_length _), hx']; rfl

theorem rewriteHeader_pos (d : Dst) (hdr : Bytes) : (rewriteHeader d hdr).pos = (rewriteHeader d hdr).data.length := by
  simp [rewriteHeader, Dst.apply]

/-- MAIN (retry, continued): the retried finalize does not only complete the files, it restores the
writer's full invariant — positions at the end of both destinations included — so that ANY later
history (more shapes, more finalize calls, the drop) behaves exactly as on a writer that never saw a
failure: in particular a shape written after the retry is appended, not written over a record -/
theorem finalize_retry_restores_invariant (w : World) (ss : List Shape) (h : WInvW w ss) (hh : Homog ss)
    (hd : w.st.dirty = true) (hnx : w.st.hasShx = false → w.shx = Dst.empty) :
    WInv (w.call .finalize).1 ss := by
  obtain ⟨_, hshp, hshx⟩ := finalize_retry_completes w ss h hd
  rw [call_finalize_dirty w hd] at hshp hshx ⊢
  simp only at hshp hshx
  refine ⟨hh, h.recNum, h.fileLength, h.version, h.shapeType, h.bbox, ?_, ?_, ?_⟩
  · exact ⟨(finalHeader ss).enc, Or.inl (Header.enc_length _), hshp, rewriteHeader_pos _ _⟩
  · cases hx : w.st.hasShx
    · simp only [hx, Bool.false_eq_true, if_false]
      exact hnx hx
    · simp only [hx, if_true]
      have := hshx hx
      simp only [hx, if_true] at this
      exact ⟨(finalShxHeader ss).enc, Or.inl (Header.enc_length _), this, rewriteHeader_pos _ _⟩
  · intro _
    refine ⟨hshp, fun hx => ?_⟩
    simp only at hx
    exact hshx hx

/-- ... hence after a failed finalize, a retry, and any further history, dropping the writer leaves
the complete files of everything accepted: the failure has left no trace -/
theorem retry_then_history (w : World) (ss : List Shape) (h : WInvW w ss) (hh : Homog ss)
    (hd : w.st.dirty = true) (hnx : w.st.hasShx = false → w.shx = Dst.empty)
    (cs : List WCall) (hcs : NonNullCalls cs) :
    (((w.call .finalize).1.run cs).drop).shp.data = shpFile (cs.foldl acceptStep ss) ∧
    (w.st.hasShx = true → (((w.call .finalize).1.run cs).drop).shx.data = shxFile (cs.foldl acceptStep ss)) := by
  have hinv := finalize_retry_restores_invariant w ss h hh hd hnx
  have hrun := WInv.run hinv cs hcs
  have hdrop := WInv.drop hrun.1
  refine ⟨hdrop.1, fun hx => hdrop.2.1 ?_⟩
  rw [hrun.2]
  rw [call_finalize_dirty w hd]
  exact hx

/-! ### what a failed write leaves behind -/

/-- A `write_shape` that is not the first and is hit by a fault leaves the writer's state as it was
before the call (`failing_call_returns_error`) and, in each destination, some bytes appended behind
what it held (`Dst.runFaulty_prefix`: a part of the record, a part of the index entry).  From ANY
such world a finalize on working destinations writes the header of the shapes accepted so far: the
files are those of the accepted shapes followed by the leftover bytes, which lie beyond the length
the headers declare — a reader does not see them (C03, C04). -/
theorem failed_write_then_finalize (w : World) (ss : List Shape) (h : WInv w ss) (hne : ss ≠ [])
    (hd : w.st.dirty = true) (junkShp junkShx : Bytes) :
    let w' : World := { w with shp := ⟨w.shp.data ++ junkShp, w.shp.data.length + junkShp.length⟩,
                               shx := ⟨w.shx.data ++ junkShx, w.shx.data.length + junkShx.length⟩ }
    (w'.call .finalize).2 = .ok () ∧
    (w'.call .finalize).1.shp.data = shpFile ss ++ junkShp ∧
    (w.st.hasShx = true → (w'.call .finalize).1.shx.data = shxFile ss ++ junkShx) := by
  intro w'
  have hd' : w'.st.dirty = true := hd
  rw [call_finalize_dirty w' hd']
  have hh : hdrOf w.st = finalHeader ss := hdrOf_of_inv h
  have hx' : shxHdrOf w.st = finalShxHeader ss := shxHdrOf_of_inv h
  refine ⟨rfl, ?_, ?_⟩
  · obtain ⟨hb, hhb, hdat, _⟩ := h.shp
    have hl : hb.length = 100 := by
      rcases hhb with hhb | ⟨_, h2⟩
      · exact hhb
      · exact absurd h2 hne
    have hm : Mid (recordsFrom (fileTypeOf ss) 1 ss ++ junkShp) w'.shp :=
      ⟨hb, by omega, fun hlt => by omega, by show w.shp.data ++ junkShp = _; rw [hdat, List.append_assoc]⟩
    show (rewriteHeader w'.shp (hdrOf w.st).enc).data = _
    rw [rewriteHeader_mid w'.shp _ _ hm (Header.enc_length _), hh]
    simp [shpFile, List.append_assoc]
  · intro hx
    have hs := h.shx
    rw [hx] at hs
    simp only [if_true] at hs
    obtain ⟨hb, hhb, hdat, _⟩ := hs
    have hl : hb.length = 100 := by
      rcases hhb with hhb | ⟨_, h2⟩
      · exact hhb
      · exact absurd h2 hne
    have hm : Mid (entriesFrom 50 ss ++ junkShx) w'.shx :=
      ⟨hb, by omega, fun hlt => by omega, by show w.shx.data ++ junkShx = _; rw [hdat, List.append_assoc]⟩
    have hxs : w'.st.hasShx = true := hx
    simp only [hxs, if_true]
    show (rewriteHeader w'.shx (shxHdrOf w.st).enc).data = _
    rw [rewriteHeader_mid w'.shx _ _ hm (Header.enc_length _), hx']
    simp [shxFile, List.append_assoc]

/-- ... so within the length its header declares, the .shp after that finalize IS the file of the
accepted shapes -/
theorem failed_write_then_finalize_declared (w : World) (ss : List Shape) (h : WInv w ss) (hne : ss ≠ [])
    (hd : w.st.dirty = true) (junkShp junkShx : Bytes) :
    let w' : World := { w with shp := ⟨w.shp.data ++ junkShp, w.shp.data.length + junkShp.length⟩,
                               shx := ⟨w.shx.data ++ junkShx, w.shx.data.length + junkShx.length⟩ }
    ((w'.call .finalize).1.shp.data).take (shpFile ss).length = shpFile ss := by
  intro w'
  rw [(failed_write_then_finalize w ss h hne hd junkShp junkShx).2.1, List.take_left]

/-- the faulty run of a plan, destination by destination -/
theorem runOps_shp (fw : FWorld) (sops : List IOOp) (rest : List (DestId × IOOp)) :
    fw.runOps (sops.map (fun o => (DestId.shp, o)) ++ rest) =
      (if (fw.w.shp.runFaulty fw.shpFault fw.persistent sops).2.2
       then ({ fw with w := { fw.w with shp := (fw.w.shp.runFaulty fw.shpFault fw.persistent sops).1 },
                       shpFault := (fw.w.shp.runFaulty fw.shpFault fw.persistent sops).2.1 }, true)
       else ({ fw with w := { fw.w with shp := (fw.w.shp.runFaulty fw.shpFault fw.persistent sops).1 },
                       shpFault := (fw.w.shp.runFaulty fw.shpFault fw.persistent sops).2.1 } : FWorld).runOps rest) := by
  induction sops generalizing fw with
  | nil => simp [Dst.runFaulty]
  | cons o os ih =>
    simp only [List.map_cons, List.cons_append, FWorld.runOps, Dst.runFaulty]
    by_cases hf : (fw.w.shp.applyFaulty fw.shpFault fw.persistent o).2.2 = true
    · simp only [hf, if_true]
    · simp only [hf, Bool.false_eq_true, if_false]
      rw [ih]

theorem runOps_shx (fw : FWorld) (xops : List IOOp) :
    (fw.runOps (xops.map (fun o => (DestId.shx, o)))).1.w.shp = fw.w.shp ∧
    (fw.runOps (xops.map (fun o => (DestId.shx, o)))).1.w.shx = (fw.w.shx.runFaulty fw.shxFault fw.persistent xops).1 ∧
    (fw.runOps (xops.map (fun o => (DestId.shx, o)))).1.w.st = fw.w.st := by
  induction xops generalizing fw with
  | nil => simp [FWorld.runOps, Dst.runFaulty]
  | cons o os ih =>
    simp only [List.map_cons, FWorld.runOps, Dst.runFaulty]
    by_cases hf : (fw.w.shx.applyFaulty fw.shxFault fw.persistent o).2.2 = true
    · simp only [hf, if_true]
      exact ⟨trivial, trivial, trivial⟩
    · simp only [hf, Bool.false_eq_true, if_false]
      have := ih { fw with w := { fw.w with shx := (fw.w.shx.applyFaulty fw.shxFault fw.persistent o).1 },
                           shxFault := (fw.w.shx.applyFaulty fw.shxFault fw.persistent o).2.1 }
      simpa using this

/-- MAIN (what a finalize under ANY fault plan leaves): the writer's state facts and, in each
destination, the records behind a header-sized region — exactly the hypothesis of the retry -/
theorem finalize_under_faults (fw : FWorld) (ss : List Shape) (h : WInv fw.w ss) (hd : fw.w.st.dirty = true) :
    WInvW (fw.call .finalize).1.w ss ∧
    ((fw.call .finalize).2 ≠ .ok () → (fw.call .finalize).1.w.st.dirty = true) := by
  have hw := WInv.toW h
  have hplan : plan fw.w.st .finalize = .ok (planFinalize fw.w.st) := rfl
  unfold FWorld.call
  rw [hplan]
  simp only
  -- the operations of this finalize
  have hops : (planFinalize fw.w.st).ops =
      [IOOp.seekStart 0, .write (hdrOf fw.w.st).enc, .seekEnd, .flush].map (fun o => (DestId.shp, o)) ++
      (if fw.w.st.hasShx then [IOOp.seekStart 0, .write (shxHdrOf fw.w.st).enc, .seekEnd, .flush].map (fun o => (DestId.shx, o)) else []) := by
    unfold planFinalize hdrOf shxHdrOf
    simp only [hd, Bool.not_true, Bool.false_eq_true, if_false]
    cases fw.w.st.hasShx <;> rfl
  have hpre : (planFinalize fw.w.st).pre = fw.w.st := by unfold planFinalize; simp [hd]
  have hpost : (planFinalize fw.w.st).post = { fw.w.st with dirty := false } := by unfold planFinalize; simp [hd]
  -- destinations after the (possibly failing) run
  have hdst : Mid (recordsFrom (fileTypeOf ss) 1 ss) (fw.runOps (planFinalize fw.w.st).ops).1.w.shp ∧
      (fw.w.st.hasShx = true → Mid (entriesFrom 50 ss) (fw.runOps (planFinalize fw.w.st).ops).1.w.shx) := by
    rw [hops, runOps_shp]
    obtain ⟨k, cut, hk, _⟩ := Dst.runFaulty_prefix fw.w.shp fw.shpFault fw.persistent
      [IOOp.seekStart 0, .write (hdrOf fw.w.st).enc, .seekEnd, .flush]
    have hmid1 : Mid (recordsFrom (fileTypeOf ss) 1 ss)
        (fw.w.shp.runFaulty fw.shpFault fw.persistent [IOOp.seekStart 0, .write (hdrOf fw.w.st).enc, .seekEnd, .flush]).1 := by
      rw [hk]; exact finalize_prefix_mid _ _ (Header.enc_length _) _ hw.shp k cut
    split
    · exact ⟨hmid1, fun hx => hw.shx hx⟩
    · cases hx : fw.w.st.hasShx
      · simp only [Bool.false_eq_true, if_false, FWorld.runOps]
        exact ⟨hmid1, fun hh => by cases hh⟩
      · simp only [if_true]
        obtain ⟨k2, cut2, hk2, _⟩ := Dst.runFaulty_prefix fw.w.shx fw.shxFault fw.persistent
          [IOOp.seekStart 0, .write (shxHdrOf fw.w.st).enc, .seekEnd, .flush]
        generalize hr : fw.w.shp.runFaulty fw.shpFault fw.persistent
            [IOOp.seekStart 0, .write (hdrOf fw.w.st).enc, .seekEnd, .flush] = r at hmid1 ⊢
        have hsx := runOps_shx (FWorld.mk { fw.w with shp := r.1 } r.2.1 fw.shxFault fw.persistent)
          [IOOp.seekStart 0, .write (shxHdrOf fw.w.st).enc, .seekEnd, .flush]
        refine ⟨by rw [hsx.1]; exact hmid1, fun _ => ?_⟩
        rw [hsx.2.1]
        simp only
        rw [hk2]
        exact finalize_prefix_mid _ _ (Header.enc_length _) _ (hw.shx hx) k2 cut2
  by_cases hf : (fw.runOps (planFinalize fw.w.st).ops).2 = true
  · simp only [hf, if_true, hpre]
    exact ⟨⟨hw.recNum, hw.fileLength, hw.version, hw.shapeType, hw.bbox, hdst.1, hdst.2⟩, fun _ => hd⟩
  · simp only [hf, Bool.false_eq_true, if_false, hpost]
    exact ⟨⟨hw.recNum, hw.fileLength, hw.version, hw.shapeType, hw.bbox, hdst.1, hdst.2⟩, fun hne => absurd rfl hne⟩

/-- non-vacuity: a writer holding only the first 37 bytes of a header (finalize failed mid-header
on an empty destination) is such a state -/
example : Mid [] ⟨List.replicate 37 0, 37⟩ := ⟨List.replicate 37 0, by simp, fun _ => rfl, by simp⟩

end Shp.C12

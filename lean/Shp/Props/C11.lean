/-
C11 — a crash at any point of writing never makes a reader see a wrong shape.
What a crash persists is, per destination, the state after a PREFIX of the operations issued to it
with the last write possibly cut (`Dst.runFaulty_prefix`, `Dst.applyPrefix`).  For the .shp that is
a header-sized region — any mixture of old and new header bytes — followed by a byte-prefix of the
record stream (`C12.finalize_prefix_mid` for finalize, append for write_shape).  The theorems below
show that reading ANY such file yields an error or a prefix of the written shapes.
-/
import Shp.Props.C13
import Shp.Props.C12
import Shp.Props.C04
import Shp.Lemmas.Crash
namespace Shp.C11
open Shp Dec

/-- outputs that are a prefix of the written shapes, optionally followed by one I/O error -/
def PrefixThenError (o : Orient) (ss : List Shape) (outs : List ROut) : Prop :=
  ∃ j, j ≤ ss.length ∧
    (outs = (ss.take j).map (fun s => ROut.shape (s.readBack o)) ∨
     outs = (ss.take j).map (fun s => ROut.shape (s.readBack o)) ++ [ROut.err .io])

/-- MAIN (sequential reading of a crashed .shp): whatever length the (possibly half-rewritten)
header declares — too small, too large, negative — and wherever the record stream was cut, the
reader yields a prefix of the written shapes, in order, each equal to the original as read back,
optionally followed by one I/O error; never another shape, never a reordered one. -/
theorem crashed_stream (o : Orient) (tg : Target) (t : ShapeType) (ss : List Shape) (k avail fuel : Nat)
    (st : RState)
    (hsz : ∀ s ∈ ss, s.Sized) (hnn : ∀ s ∈ ss, s ≠ .null) (hty : ∀ s ∈ ss, s.writeType = t)
    (hacc : ∀ s ∈ ss, tg.Accepts s.writeType) (hk : k + ss.length < 2147483648)
    (hidx : st.index = none) (hpos : st.currentPos = some st.srcPos)
    (hdata : st.data.drop st.srcPos = (recordsFrom t k ss).take avail) (hlen : st.srcPos ≤ st.data.length) :
    PrefixThenError o ss (st.iterAll o tg fuel).2 := by
  induction ss generalizing k avail fuel st with
  | nil =>
    cases fuel with
    | zero => exact ⟨0, by simp, Or.inl (by simp [RState.iterAll])⟩
    | succ fuel =>
      -- nothing left in the stream: the iterator stops, or reports the end of input once
      have hd : st.data.drop st.srcPos = [] := by simpa [recordsFrom] using hdata
      unfold RState.iterAll
      have hnext : (st.iterNext o tg) = (st, .none) ∨ (st.iterNext o tg) = ({ st with currentPos := none }, .err .io) := by
        unfold RState.iterNext
        rw [hidx]
        simp only [hpos]
        split
        · exact Or.inl rfl
        · right
          unfold RState.readHere
          rw [hd]
          have : readOneShape o tg [] = .err .io := by unfold readOneShape Dec.bind Dec.i32BE Dec.u32BE; rfl
          rw [this]
          simp only [hidx]
      rcases hnext with h | h
      · rw [h]; exact ⟨0, by simp, Or.inl (by simp)⟩
      · rw [h]
        simp only
        have hend : ∀ f, (RState.iterAll o tg f { st with currentPos := none }).2 = [] := by
          intro f
          cases f with
          | zero => rfl
          | succ f =>
            unfold RState.iterAll
            have : RState.iterNext o tg { st with currentPos := none } = ({ st with currentPos := none }, .none) := by
              unfold RState.iterNext; simp only [hidx]
            rw [this]
        rw [hend]
        exact ⟨0, by simp, Or.inr (by simp)⟩
  | cons s ss ih =>
    cases fuel with
    | zero => exact ⟨0, by simp, Or.inl (by simp [RState.iterAll])⟩
    | succ fuel =>
      have hs := hsz s List.mem_cons_self
      have hts : s.writeType = t := hty s List.mem_cons_self
      have hL := C18.encRecord_length (k : Int) t s
      have hnum : InI32 (k : Int) := by unfold InI32; simp only [List.length_cons] at hk; omega
      have hend : ∀ f, (RState.iterAll o tg f { st with currentPos := none }).2 = [] := by
        intro f
        cases f with
        | zero => rfl
        | succ f =>
          unfold RState.iterAll
          have : RState.iterNext o tg { st with currentPos := none } = ({ st with currentPos := none }, .none) := by
            unfold RState.iterNext; simp only [hidx]
          rw [this]
      -- does the header's declared length let the iterator go on?
      by_cases hstop : ((wordsToBytes st.header.fileLength).getD 0).toNat ≤ st.srcPos
      · have hnext : st.iterNext o tg = (st, .none) := by
          unfold RState.iterNext
          rw [hidx]
          simp only [hpos]
          rw [if_pos hstop]
        unfold RState.iterAll
        rw [hnext]
        exact ⟨0, by simp, Or.inl (by simp)⟩
      · by_cases hfit : 8 + 2 * recordSizeWords s ≤ avail
        · -- the next record is whole
          have hdrop : st.data.drop st.srcPos = encRecord k t s ++ (recordsFrom t (k + 1) ss).take (avail - (8 + 2 * recordSizeWords s)) := by
            rw [hdata]
            simp only [recordsFrom]
            rw [List.take_append, List.take_of_length_le (by rw [hL]; omega), hL]
          have hrec := readOneShape_encRecord o tg (k : Int) s ((recordsFrom t (k + 1) ss).take (avail - (8 + 2 * recordSizeWords s)))
            hnum hs (hnn s List.mem_cons_self) (hacc s List.mem_cons_self)
          rw [hts] at hrec
          have hnext : ∃ st1, st.iterNext o tg = (st1, .shape (s.readBack o)) ∧ st1.index = none ∧
              st1.currentPos = some st1.srcPos ∧ st1.data = st.data ∧
              st1.srcPos = st.srcPos + (8 + 2 * recordSizeWords s) := by
            unfold RState.iterNext
            rw [hidx]
            simp only [hpos]
            rw [if_neg hstop]
            unfold RState.readHere
            rw [hdrop, hrec]
            have hcl := congrArg List.length hdrop
            simp only [List.length_drop, List.length_append, hL] at hcl
            refine ⟨_, rfl, hidx, ?_, rfl, ?_⟩
            · simp only [hpos, Option.map_some, Const.recordHeaderSize, Option.some.injEq]; omega
            · simp only; omega
          obtain ⟨st1, hn1, hi1, hp1, hd1, hs1⟩ := hnext
          have hcl := congrArg List.length hdrop
          simp only [List.length_drop, List.length_append, hL] at hcl
          have ih' := ih (k + 1) (avail - (8 + 2 * recordSizeWords s)) fuel st1
            (fun x hx => hsz x (List.mem_cons_of_mem _ hx)) (fun x hx => hnn x (List.mem_cons_of_mem _ hx))
            (fun x hx => hty x (List.mem_cons_of_mem _ hx)) (fun x hx => hacc x (List.mem_cons_of_mem _ hx))
            (by simp only [List.length_cons] at hk; omega) hi1 hp1
            (by rw [hd1, hs1, ← List.drop_drop, hdrop, List.drop_left' (by rw [hL])])
            (by rw [hd1, hs1]; omega)
          obtain ⟨j, hj, hout⟩ := ih'
          unfold RState.iterAll
          rw [hn1]
          refine ⟨j + 1, by simp only [List.length_cons]; omega, ?_⟩
          simp only [List.take_succ_cons, List.map_cons, List.cons_append]
          rcases hout with h | h
          · exact Or.inl (by rw [h])
          · exact Or.inr (by rw [h])
        · -- the next record is cut: one I/O error, then the iteration ends
          have hcut : avail < (encRecord (k : Int) t s).length := by rw [hL]; omega
          have hdrop : st.data.drop st.srcPos = (encRecord k t s).take avail := by
            rw [hdata]
            simp only [recordsFrom]
            rw [List.take_append_of_le_length (by omega)]
          have herr := C13.truncated_record o tg (k : Int) s avail hnum hs (hnn s List.mem_cons_self)
            (hacc s List.mem_cons_self) (by rw [hts]; exact hcut)
          rw [hts] at herr
          have hnext : st.iterNext o tg = ({ st with currentPos := none }, .err .io) := by
            unfold RState.iterNext
            rw [hidx]
            simp only [hpos]
            rw [if_neg hstop]
            unfold RState.readHere
            rw [hdrop, herr]
            simp only [hidx]
          unfold RState.iterAll
          rw [hnext]
          simp only [hend fuel]
          exact ⟨0, by simp, Or.inr (by simp)⟩

/-- what every prefix of a `write_shape`'s operations (after the first one) persists in the .shp:
the file as it was, followed by the first bytes of the new record -/
theorem write_prefix_persisted (d : Dst) (rec_ : Bytes) (hpos : d.pos = d.data.length) (k cut : Nat) :
    ∃ c, (d.applyPrefix [.write rec_] k cut).data = d.data ++ rec_.take c := by
  match k with
  | 0 =>
    refine ⟨cut, ?_⟩
    simp only [Dst.applyPrefix, List.take_zero, List.foldl_nil, List.getElem?_cons_zero]
    rw [Dst.apply_write_end _ _ hpos]
  | k + 1 =>
    refine ⟨rec_.length, ?_⟩
    simp only [Dst.applyPrefix, List.take_succ_cons, List.take_nil, List.foldl_cons, List.foldl_nil]
    have : ([IOOp.write rec_] : List IOOp)[k + 1]? = none := by simp
    rw [this]
    simp only
    rw [Dst.apply_write_end _ _ hpos, List.take_of_length_le (Nat.le_refl _)]

/-- everything written before the last finalize that completed on the .shp remains readable: a
completed finalize leaves the complete file of the shapes accepted so far (C09), and later
operations only append record bytes after it or rewrite the header region (`finalize_prefix_mid`) -/
theorem finalized_prefix_readable (o : Orient) (tg : Target) (ss : List Shape) (hok : FileOK tg ss) (extra : Bytes) :
    readAll o tg (shpFile ss ++ extra) none = .ok (ss.map (Shape.readBack o)) :=
  C04.read_without_index o tg ss hok extra

theorem take_append_len (a b : Bytes) (c : Nat) : (a ++ b).take (a.length + c) = a ++ b.take c := by
  rw [List.take_append, List.take_of_length_le (by omega)]
  congr 2
  omega

/-- the operations a plan issues to one destination, in order -/
def opsFor (d : DestId) (ops : List (DestId × IOOp)) : List IOOp :=
  ops.filterMap fun x => if x.1 = d then some x.2 else none

/-- MAIN (what a crash persists in the .shp): the writer is in ANY reachable state (`WInv`), a call
is under way, and the .shp destination received an arbitrary prefix of that call's operations, the
last write possibly cut.  Then the destination holds a header-sized region (any mixture of old and
new header bytes, or nothing yet) followed by a byte-prefix of the record stream of the shapes
accepted up to and including this call. -/
theorem crash_during_call_shp {w : World} {ss : List Shape} (h : WInv w ss) (c : WCall)
    (hc : c ≠ .writeShape .null) (p : Plan) (hp : plan w.st c = .ok p) (k cut : Nat) :
    ∃ n, C12.Mid ((recordsFrom (fileTypeOf (acceptStep ss c)) 1 (acceptStep ss c)).take n)
      (w.shp.applyPrefix (opsFor .shp p.ops) k cut) := by
  have hw := C12.WInv.toW h
  cases c with
  | finalize =>
    have hpe : p = planFinalize w.st := by
      have : plan w.st .finalize = .ok (planFinalize w.st) := rfl
      rw [this] at hp; exact (Except.ok.inj hp).symm
    subst hpe
    refine ⟨(recordsFrom (fileTypeOf ss) 1 ss).length, ?_⟩
    simp only [acceptStep]
    rw [List.take_of_length_le (Nat.le_refl _)]
    cases hd : w.st.dirty
    · have : (planFinalize w.st).ops = [] := by unfold planFinalize; simp [hd]
      rw [this]
      simp only [opsFor, List.filterMap_nil, Dst.applyPrefix_nil]
      exact hw.shp
    · have : opsFor .shp (planFinalize w.st).ops =
          [IOOp.seekStart 0, .write (hdrOf w.st).enc, .seekEnd, .flush] := by
        unfold planFinalize hdrOf opsFor
        cases hx : w.st.hasShx <;> simp [hd]
      rw [this]
      exact C12.finalize_prefix_mid _ _ (Header.enc_length _) _ hw.shp k cut
  | writeShape s =>
    have hs : s.writeType ≠ .nullShape := s.writeType_ne_null (fun e => hc (by rw [e]))
    have hpp : planWriteShape w.st s = .ok p := hp
    obtain ⟨hb, hhb, hdata, hpos⟩ := h.shp
    by_cases hnil : ss = []
    · -- first write: header at offset 0, then the record
      subst hnil
      have hn : w.st.header.shapeType = .nullShape := h.shapeType
      rw [plan_write_first w.st s hn] at hpp
      have hpe := (Except.ok.inj hpp).symm
      subst hpe
      have hops : opsFor .shp
          ([(DestId.shp, IOOp.seekStart 0), (.shp, .write (firstHeader w.st s).enc)] ++
               (if w.st.hasShx then [(.shx, .seekStart 0), (.shx, .write (firstHeader w.st s).enc)] else []) ++
               [(.shp, .write (encRecord w.st.recNum s.writeType s))] ++
               (if w.st.hasShx then [(.shx, .write (IndexEntry.enc ⟨w.st.header.fileLength, recordSizeWords s⟩))] else [])) =
          [IOOp.seekStart 0, .write (firstHeader w.st s).enc, .write (encRecord w.st.recNum s.writeType s)] := by
        unfold opsFor
        cases hx : w.st.hasShx <;> simp
      simp only [hops]
      have hacc : acceptStep [] (.writeShape s) = [s] := by simp [acceptStep, accepts]
      rw [hacc]
      have hft : fileTypeOf [s] = s.writeType := rfl
      rw [hft]
      have hrn : w.st.recNum = 1 := by simpa using h.recNum
      simp only [recordsFrom, List.append_nil]
      simp only [recordsFrom, List.append_nil] at hdata
      have hlen : (firstHeader w.st s).enc.length = 100 := Header.enc_length _
      have hm0 : C12.Mid [] w.shp := by
        rcases hhb with hhb | ⟨h1, _⟩
        · exact ⟨hb, by omega, fun hh => rfl, by rw [hdata]; simp⟩
        · exact ⟨[], by simp, fun _ => rfl, by rw [hdata, h1]; rfl⟩
      have hfull := Dst.first_write w.shp (firstHeader w.st s).enc (encRecord w.st.recNum s.writeType s)
        (by rcases hhb with hhb | ⟨h1, _⟩
            · left; rw [hdata]; exact hhb
            · right; rw [hdata]; exact h1) hlen
      have h2 : (w.shp.apply (.seekStart 0)).apply (.write (firstHeader w.st s).enc) =
          ⟨(firstHeader w.st s).enc, (firstHeader w.st s).enc.length⟩ := by
        have hw1 : writeAt w.shp.data 0 (firstHeader w.st s).enc = (firstHeader w.st s).enc := by
          rcases hhb with hhb | ⟨h1, _⟩
          · have := writeAt_start w.shp.data (firstHeader w.st s).enc [] (by rw [hdata]; omega)
            simpa using this
          · rw [hdata, h1]; exact writeAt_empty _
        simp [Dst.apply, hw1]
      match k with
      | 0 =>
        refine ⟨0, ?_⟩
        simpa [Dst.applyPrefix] using hm0
      | 1 =>
        refine ⟨0, ?_⟩
        simp only [List.take_zero]
        obtain ⟨hb0, a0, b0, c0⟩ := hm0
        obtain ⟨hb', a, b, c'⟩ := C12.writeAt_zero_mid hb0 [] ((firstHeader w.st s).enc.take cut) a0 b0
          (by simp; omega)
        refine ⟨hb', a, b, ?_⟩
        simp only [Dst.applyPrefix, List.take_succ_cons, List.take_zero, List.foldl_cons, List.foldl_nil, Dst.apply,
          List.getElem?_cons_succ, List.getElem?_cons_zero, c0, c']
      | 2 =>
        refine ⟨cut, ?_⟩
        refine ⟨(firstHeader w.st s).enc, by omega, fun hh => by omega, ?_⟩
        simp only [Dst.applyPrefix, List.take_succ_cons, List.take_zero, List.foldl_cons, List.foldl_nil,
          List.getElem?_cons_succ, List.getElem?_cons_zero]
        rw [h2, Dst.apply_write_end _ _ rfl, hrn]
      | k + 3 =>
        refine ⟨(encRecord 1 s.writeType s).length, ?_⟩
        refine ⟨(firstHeader w.st s).enc, by omega, fun hh => by omega, ?_⟩
        have hnone : ([IOOp.seekStart 0, .write (firstHeader w.st s).enc, .write (encRecord w.st.recNum s.writeType s)] : List IOOp)[k + 3]? = none := by simp
        simp only [Dst.applyPrefix, hnone, List.take_succ_cons, List.take_nil, List.foldl_cons, List.foldl_nil]
        rw [hfull, hrn]; simp
    · -- a later write: the record is appended
      by_cases ha : accepts ss s
      · have ht' : fileTypeOf ss = s.writeType := by
          rcases ha with ha | ha
          · exact absurd ha hnil
          · exact ha
        have hnn : w.st.header.shapeType ≠ .nullShape := by rw [h.shapeType, ht']; exact hs
        have hty : w.st.header.shapeType = s.writeType := by rw [h.shapeType, ht']
        rw [plan_write_next w.st s hnn hty] at hpp
        have hpe := (Except.ok.inj hpp).symm
        subst hpe
        have hops : opsFor .shp
            ([(DestId.shp, IOOp.write (encRecord w.st.recNum s.writeType s))] ++
               (if w.st.hasShx then [(.shx, .write (IndexEntry.enc ⟨w.st.header.fileLength, recordSizeWords s⟩))] else [])) =
            [IOOp.write (encRecord w.st.recNum s.writeType s)] := by
          unfold opsFor
          cases hx : w.st.hasShx <;> simp
        simp only [hops]
        have hacc : acceptStep ss (.writeShape s) = ss ++ [s] := by simp [acceptStep, ha]
        rw [hacc, fileTypeOf_append ss s (Or.inr ht'), recordsFrom_append]
        obtain ⟨c', hc'⟩ := write_prefix_persisted w.shp (encRecord w.st.recNum s.writeType s) hpos k cut
        have hb100 : hb.length = 100 := by
          rcases hhb with hhb | ⟨_, h2⟩
          · exact hhb
          · exact absurd h2 hnil
        refine ⟨(recordsFrom s.writeType 1 ss).length + c', hb, by omega, fun hh => by omega, ?_⟩
        rw [ht'] at hdata
        rw [hc', hdata, take_append_len, h.recNum, List.append_assoc]
        congr 4
        push_cast
        omega
      · have hty : fileTypeOf ss ≠ s.writeType := fun e => ha (Or.inr e)
        have hnn : w.st.header.shapeType ≠ .nullShape := by
          rw [h.shapeType]
          cases ss with
          | nil => exact absurd rfl hnil
          | cons a as => exact h.homog.1
        rw [plan_write_rejected w.st s hnn (by rw [h.shapeType]; exact hty)] at hpp
        cases hpp

/-- MAIN (reading what a crash persisted): a .shp consisting of a header-sized region with
ARBITRARY content followed by any byte-prefix of the record stream of `ss` either fails to open
with an error, or opens and yields a prefix of `ss` — in order, each shape equal to the original
as read back — optionally followed by one I/O error.  Never a panic, never another shape. -/
theorem crashed_file (o : Orient) (tg : Target) (t : ShapeType) (ss : List Shape) (n : Nat) (d : Dst)
    (hm : C12.Mid ((recordsFrom t 1 ss).take n) d)
    (hsz : ∀ s ∈ ss, s.Sized) (hnn : ∀ s ∈ ss, s ≠ .null) (hty : ∀ s ∈ ss, s.writeType = t)
    (hacc : ∀ s ∈ ss, tg.Accepts s.writeType) (hk : 1 + ss.length < 2147483648) :
    (∀ e, RState.open d.data none = .error e → ∃ er, e = .err er) ∧
    (∀ st, RState.open d.data none = .ok st → ∀ fuel, PrefixThenError o ss (st.iterAll o tg fuel).2) := by
  constructor
  · intro e he
    unfold RState.open at he
    simp only at he
    cases hr : readHeader d.data with
    | ok hd r => rw [hr] at he; cases he
    | err er => rw [hr] at he; simp only [Except.error.injEq] at he; exact ⟨er, he.symm⟩
    | panic m => have := readHeader_noPanic d.data; rw [hr] at this; cases this
  · intro st hst fuel
    unfold RState.open at hst
    simp only at hst
    cases hr : readHeader d.data with
    | err er => rw [hr] at hst; cases hst
    | panic m => rw [hr] at hst; cases hst
    | ok hd r =>
      rw [hr] at hst
      simp only [Except.ok.injEq] at hst
      have hcons := readHeader_consumes d.data hd r hr
      obtain ⟨hb, h1, h2, h3⟩ := hm
      have hb100 : hb.length = 100 := by
        by_cases hlt : hb.length < 100
        · have := h2 hlt
          rw [this] at h3
          have := congrArg List.length h3
          simp only [List.append_nil] at this
          omega
        · omega
      subst hst
      apply crashed_stream o tg t ss 1 n fuel _ hsz hnn hty hacc hk rfl
      · show some Const.headerSize = some (d.data.length - r.length)
        simp only [Const.headerSize]; congr 1; omega
      · show d.data.drop (d.data.length - r.length) = _
        have : d.data.length - r.length = 100 := by omega
        rw [this, h3, List.drop_left' hb100]
      · show d.data.length - r.length ≤ d.data.length
        omega

/-- MAIN (end to end, no index): after ANY history of calls, a crash at ANY point of the next call
— the .shp holding an arbitrary prefix of that call's operations, the last write cut anywhere —
leaves a file that a reader either refuses with an error or reads as a prefix of the shapes
accepted so far (this call's included), each equal to the original, then at most one I/O error. -/
theorem crash_anywhere (o : Orient) (tg : Target) (hasShx : Bool) (cs : List WCall) (c : WCall) (p : Plan)
    (k cut : Nat) (hcs : NonNullCalls (cs ++ [c]))
    (hp : plan ((World.init hasShx).run cs).st c = .ok p)
    (hok : FileOK tg (acceptedOf (cs ++ [c]))) :
    (∀ e, RState.open ((((World.init hasShx).run cs).shp.applyPrefix (opsFor .shp p.ops) k cut).data) none = .error e →
        ∃ er, e = .err er) ∧
    (∀ st, RState.open ((((World.init hasShx).run cs).shp.applyPrefix (opsFor .shp p.ops) k cut).data) none = .ok st →
        ∀ fuel, PrefixThenError o (acceptedOf (cs ++ [c])) (st.iterAll o tg fuel).2) := by
  have hinv := (WInv.run (WInv.init hasShx) cs (fun x hx => hcs x (List.mem_append_left _ hx))).1
  have hc : c ≠ .writeShape .null := hcs c (List.mem_append_right _ List.mem_cons_self)
  have hacc : acceptedOf (cs ++ [c]) = acceptStep (cs.foldl acceptStep []) c := by
    simp [acceptedOf, List.foldl_append]
  obtain ⟨n, hm⟩ := crash_during_call_shp hinv c hc p hp k cut
  rw [hacc] at hok ⊢
  have hl := length_le_totalWords (acceptStep (cs.foldl acceptStep []) c)
  have htot := hok.total
  exact crashed_file o tg _ _ n _ hm hok.sized hok.nonnull hok.types hok.accepts (by omega)

/-- every prefix of "header at offset 0, then a first chunk" over an empty or header-only
destination leaves a header-sized region followed by a prefix of the chunk -/
theorem first_write_prefix (d : Dst) (hdr chunk : Bytes) (hh : d.data.length = 100 ∨ d.data = [])
    (hl : hdr.length = 100) (k cut : Nat) :
    ∃ n, C12.Mid (chunk.take n) (d.applyPrefix [.seekStart 0, .write hdr, .write chunk] k cut) := by
  have hm0 : C12.Mid [] d := by
    rcases hh with hh | hh
    · exact ⟨d.data, by omega, fun _ => rfl, by simp⟩
    · exact ⟨[], by simp, fun _ => rfl, by rw [hh]; rfl⟩
  have hfull := Dst.first_write d hdr chunk hh hl
  have h2 : (d.apply (.seekStart 0)).apply (.write hdr) = ⟨hdr, hdr.length⟩ := by
    have hw1 : writeAt d.data 0 hdr = hdr := by
      rcases hh with hh | hh
      · have := writeAt_start d.data hdr [] (by omega)
        simpa using this
      · rw [hh]; exact writeAt_empty _
    simp [Dst.apply, hw1]
  match k with
  | 0 =>
    refine ⟨0, ?_⟩
    simpa [Dst.applyPrefix] using hm0
  | 1 =>
    refine ⟨0, ?_⟩
    simp only [List.take_zero]
    obtain ⟨hb0, a0, b0, c0⟩ := hm0
    obtain ⟨hb', a, b, c'⟩ := C12.writeAt_zero_mid hb0 [] (hdr.take cut) a0 b0 (by simp; omega)
    refine ⟨hb', a, b, ?_⟩
    simp only [Dst.applyPrefix, List.take_succ_cons, List.take_zero, List.foldl_cons, List.foldl_nil, Dst.apply,
      List.getElem?_cons_succ, List.getElem?_cons_zero, c0, c']
  | 2 =>
    refine ⟨cut, hdr, by omega, fun hh => by omega, ?_⟩
    simp only [Dst.applyPrefix, List.take_succ_cons, List.take_zero, List.foldl_cons, List.foldl_nil,
      List.getElem?_cons_succ, List.getElem?_cons_zero]
    rw [h2, Dst.apply_write_end _ _ rfl]
  | k + 3 =>
    refine ⟨chunk.length, hdr, by omega, fun hh => by omega, ?_⟩
    have hnone : ([IOOp.seekStart 0, .write hdr, .write chunk] : List IOOp)[k + 3]? = none := by simp
    simp only [Dst.applyPrefix, hnone, List.take_succ_cons, List.take_nil, List.foldl_cons, List.foldl_nil]
    rw [hfull]; simp

/-- MAIN (what a crash persists in the .shx): as `crash_during_call_shp`, for the index file -/
theorem crash_during_call_shx {w : World} {ss : List Shape} (h : WInv w ss) (hx : w.st.hasShx = true) (c : WCall)
    (hc : c ≠ .writeShape .null) (p : Plan) (hp : plan w.st c = .ok p) (k cut : Nat) :
    ∃ n, C12.Mid ((entriesFrom 50 (acceptStep ss c)).take n) (w.shx.applyPrefix (opsFor .shx p.ops) k cut) := by
  have hw := C12.WInv.toW h
  have hshx := h.shx
  rw [hx] at hshx
  simp only [if_true] at hshx
  obtain ⟨hb, hhb, hdata, hpos⟩ := hshx
  cases c with
  | finalize =>
    have hpe : p = planFinalize w.st := by
      have : plan w.st .finalize = .ok (planFinalize w.st) := rfl
      rw [this] at hp; exact (Except.ok.inj hp).symm
    subst hpe
    refine ⟨(entriesFrom 50 ss).length, ?_⟩
    simp only [acceptStep]
    rw [List.take_of_length_le (Nat.le_refl _)]
    cases hd : w.st.dirty
    · have : (planFinalize w.st).ops = [] := by unfold planFinalize; simp [hd]
      rw [this]
      simp only [opsFor, List.filterMap_nil, Dst.applyPrefix_nil]
      exact hw.shx hx
    · have : opsFor .shx (planFinalize w.st).ops =
          [IOOp.seekStart 0, .write (shxHdrOf w.st).enc, .seekEnd, .flush] := by
        unfold planFinalize shxHdrOf hdrOf opsFor
        simp [hd, hx]
      rw [this]
      exact C12.finalize_prefix_mid _ _ (Header.enc_length _) _ (hw.shx hx) k cut
  | writeShape s =>
    have hs : s.writeType ≠ .nullShape := s.writeType_ne_null (fun e => hc (by rw [e]))
    have hpp : planWriteShape w.st s = .ok p := hp
    by_cases hnil : ss = []
    · subst hnil
      have hn : w.st.header.shapeType = .nullShape := h.shapeType
      rw [plan_write_first w.st s hn] at hpp
      have hpe := (Except.ok.inj hpp).symm
      subst hpe
      have hops : opsFor .shx
          ([(DestId.shp, IOOp.seekStart 0), (.shp, .write (firstHeader w.st s).enc)] ++
               (if w.st.hasShx then [(.shx, .seekStart 0), (.shx, .write (firstHeader w.st s).enc)] else []) ++
               [(.shp, .write (encRecord w.st.recNum s.writeType s))] ++
               (if w.st.hasShx then [(.shx, .write (IndexEntry.enc ⟨w.st.header.fileLength, recordSizeWords s⟩))] else [])) =
          [IOOp.seekStart 0, .write (firstHeader w.st s).enc,
            .write (IndexEntry.enc ⟨w.st.header.fileLength, recordSizeWords s⟩)] := by
        unfold opsFor
        simp [hx]
      simp only [hops]
      have hacc : acceptStep [] (.writeShape s) = [s] := by simp [acceptStep, accepts]
      rw [hacc]
      simp only [entriesFrom, List.append_nil] at hdata ⊢
      have hfl : w.st.header.fileLength = ((50 : Nat) : Int) := by rw [h.fileLength]; simp [totalWords]
      rw [hfl]
      exact first_write_prefix w.shx _ _
        (by rcases hhb with hhb | ⟨h1, _⟩
            · left; rw [hdata]; exact hhb
            · right; rw [hdata]; exact h1) (Header.enc_length _) k cut
    · by_cases ha : accepts ss s
      · have ht' : fileTypeOf ss = s.writeType := by
          rcases ha with ha | ha
          · exact absurd ha hnil
          · exact ha
        have hnn : w.st.header.shapeType ≠ .nullShape := by rw [h.shapeType, ht']; exact hs
        have hty : w.st.header.shapeType = s.writeType := by rw [h.shapeType, ht']
        rw [plan_write_next w.st s hnn hty] at hpp
        have hpe := (Except.ok.inj hpp).symm
        subst hpe
        have hops : opsFor .shx
            ([(DestId.shp, IOOp.write (encRecord w.st.recNum s.writeType s))] ++
               (if w.st.hasShx then [(.shx, .write (IndexEntry.enc ⟨w.st.header.fileLength, recordSizeWords s⟩))] else [])) =
            [IOOp.write (IndexEntry.enc ⟨w.st.header.fileLength, recordSizeWords s⟩)] := by
          unfold opsFor
          simp [hx]
        simp only [hops]
        have hacc : acceptStep ss (.writeShape s) = ss ++ [s] := by simp [acceptStep, ha]
        rw [hacc, entriesFrom_append]
        obtain ⟨c', hc'⟩ := write_prefix_persisted w.shx (IndexEntry.enc ⟨w.st.header.fileLength, recordSizeWords s⟩) hpos k cut
        have hb100 : hb.length = 100 := by
          rcases hhb with hhb | ⟨_, h2⟩
          · exact hhb
          · exact absurd h2 hnil
        refine ⟨(entriesFrom 50 ss).length + c', hb, by omega, fun hh => by omega, ?_⟩
        rw [hc', hdata, take_append_len, h.fileLength, List.append_assoc]
        congr 4
      · have hty : fileTypeOf ss ≠ s.writeType := fun e => ha (Or.inr e)
        have hnn : w.st.header.shapeType ≠ .nullShape := by
          rw [h.shapeType]
          cases ss with
          | nil => exact absurd rfl hnil
          | cons a as => exact h.homog.1
        rw [plan_write_rejected w.st s hnn (by rw [h.shapeType]; exact hty)] at hpp
        cases hpp

/-- a header-sized region followed by data, long enough to hold a header: the region is full -/
theorem Mid.full {rest : Bytes} {d : Dst} (hm : C12.Mid rest d) (hl : 100 ≤ d.data.length) :
    ∃ hb : Bytes, hb.length = 100 ∧ d.data = hb ++ rest := by
  obtain ⟨hb, h1, h2, h3⟩ := hm
  refine ⟨hb, ?_, h3⟩
  by_cases hlt : hb.length < 100
  · have := h2 hlt
    rw [this] at h3
    have := congrArg List.length h3
    simp only [List.append_nil] at this
    omega
  · omega

/-- MAIN (reading a crashed PAIR through its index): the .shp holds a header-sized region of
arbitrary content and any byte-prefix of the record stream of `ss`; the .shx a header-sized region of
arbitrary content (so: ANY declared length) and any byte-prefix of the entries of `ss`.  Opening
fails with an error, or every item the iterator yields and every `read_nth_shape(i)` is the shape
that was written at that position (as read back) or an I/O error — never another shape, never a
panic. -/
theorem crashed_pair (o : Orient) (tg : Target) (t : ShapeType) (ss : List Shape) (n m : Nat) (dshp dshx : Dst)
    (hm : C12.Mid ((recordsFrom t 1 ss).take n) dshp) (hx : C12.Mid ((entriesFrom 50 ss).take m) dshx)
    (hsz : ∀ s ∈ ss, s.Sized) (hnn : ∀ s ∈ ss, s ≠ .null) (hty : ∀ s ∈ ss, s.writeType = t)
    (hacc : ∀ s ∈ ss, tg.Accepts s.writeType) (htot : 50 + totalWords ss < 2147483648) :
    (∀ e, RState.open dshp.data (some dshx.data) = .error e → ∃ er, e = .err er) ∧
    (∀ st, RState.open dshp.data (some dshx.data) = .ok st →
      (∀ fuel, Faithful (ss.map (Shape.readBack o)) (st.iterAll o tg fuel).2) ∧
      (∀ i, (st.readNth o tg i).2 = .none ∨ (st.readNth o tg i).2 = .err .io ∨
        (∃ hi : i < (ss.map (Shape.readBack o)).length, (st.readNth o tg i).2 = .shape (ss.map (Shape.readBack o))[i]))) := by
  constructor
  · intro e he
    unfold RState.open at he
    simp only at he
    cases hri : readIndexFile dshx.data with
    | panic msg => have := readIndexFile_noPanic dshx.data; rw [hri] at this; cases this
    | err er => rw [hri] at he; simp only [Except.error.injEq] at he; exact ⟨er, he.symm⟩
    | ok idx xr =>
      rw [hri] at he
      simp only at he
      cases hr : readHeader dshp.data with
      | ok hd r => rw [hr] at he; cases he
      | err er => rw [hr] at he; simp only [Except.error.injEq] at he; exact ⟨er, he.symm⟩
      | panic msg => have := readHeader_noPanic dshp.data; rw [hr] at this; cases this
  · intro st hst
    unfold RState.open at hst
    simp only at hst
    cases hri : readIndexFile dshx.data with
    | panic msg => rw [hri] at hst; cases hst
    | err er => rw [hri] at hst; cases hst
    | ok idx xr =>
      rw [hri] at hst
      simp only at hst
      cases hr : readHeader dshp.data with
      | err er => rw [hr] at hst; cases hst
      | panic msg => rw [hr] at hst; cases hst
      | ok hd r =>
        rw [hr] at hst
        simp only [Except.ok.injEq] at hst
        -- the index: the first N entries the writer emitted
        have hidx : ∃ N, idx = (indexEntriesFrom 50 ss).take N ∧ N ≤ ss.length := by
          unfold readIndexFile at hri
          obtain ⟨xh, xrest, hx1, hx2⟩ := bind_ok hri
          have hxl := readHeader_consumes _ _ _ hx1
          have hxr := readHeader_rest _ _ _ hx1
          obtain ⟨xb, hxb, hxd⟩ := Mid.full hx (by omega)
          rw [hxd, List.drop_left' hxb] at hxr
          cases hwb : wordsToBytes xh.fileLength with
          | none => rw [hwb] at hx2; simp [Dec.fail] at hx2
          | some bytes =>
            rw [hwb] at hx2
            simp only at hx2
            rw [hxr, entriesFrom_eq] at hx2
            have hl := length_le_totalWords ss
            have := repeatN_entries_take (indexEntriesFrom 50 ss) (indexEntriesFrom_inI32 50 ss (by omega)) _ m idx xr hx2
            exact ⟨_, this.1, by simpa using this.2⟩
        obtain ⟨N, hidxN, hN⟩ := hidx
        have hcons := readHeader_consumes dshp.data hd r hr
        obtain ⟨hb, hb100, hdata⟩ := Mid.full hm (by omega)
        have hinv : CInv o tg (ss.map (Shape.readBack o)) st := by
          subst hst
          refine ⟨⟨idx, rfl, ?_, ?_⟩, ?_⟩
          · rw [hidxN]; simp; omega
          · intro i h1 h2
            simp only [hdata]
            subst hidxN
            exact crashed_addr o tg t ss hb n N hb100 hsz hnn hty hacc htot i h1 h2
          · intro p hp
            simp only [Option.some.injEq, Const.headerSize] at hp
            simp only
            omega
        have hns : st.nextShape = 0 := by subst hst; rfl
        refine ⟨fun fuel => ?_, fun i => hinv.readNth i⟩
        have := hinv.iterAll (o := o) (tg := tg) fuel
        rw [hns, List.drop_zero] at this
        exact this

/-- MAIN (end to end, with the index): after ANY history of calls, a crash at ANY point of the next
call — each destination holding its own arbitrary prefix of that call's operations, the last write
cut anywhere, the two files in no particular relation to each other — leaves a pair that a reader
refuses with an error, or reads position by position as the shape written there or an I/O error. -/
theorem crash_anywhere_pair (o : Orient) (tg : Target) (cs : List WCall) (c : WCall) (p : Plan)
    (k1 cut1 k2 cut2 : Nat) (hcs : NonNullCalls (cs ++ [c]))
    (hp : plan ((World.init true).run cs).st c = .ok p)
    (hok : FileOK tg (acceptedOf (cs ++ [c]))) :
    (∀ e, RState.open ((((World.init true).run cs).shp.applyPrefix (opsFor .shp p.ops) k1 cut1).data)
        (some (((World.init true).run cs).shx.applyPrefix (opsFor .shx p.ops) k2 cut2).data) = .error e → ∃ er, e = .err er) ∧
    (∀ st, RState.open ((((World.init true).run cs).shp.applyPrefix (opsFor .shp p.ops) k1 cut1).data)
        (some (((World.init true).run cs).shx.applyPrefix (opsFor .shx p.ops) k2 cut2).data) = .ok st →
      (∀ fuel, Faithful ((acceptedOf (cs ++ [c])).map (Shape.readBack o)) (st.iterAll o tg fuel).2) ∧
      (∀ i, (st.readNth o tg i).2 = .none ∨ (st.readNth o tg i).2 = .err .io ∨
        (∃ hi : i < ((acceptedOf (cs ++ [c])).map (Shape.readBack o)).length,
          (st.readNth o tg i).2 = .shape ((acceptedOf (cs ++ [c])).map (Shape.readBack o))[i]))) := by
  have hrun := WInv.run (WInv.init true) cs (fun x hx => hcs x (List.mem_append_left _ hx))
  have hinv := hrun.1
  have hx : ((World.init true).run cs).st.hasShx = true := hrun.2
  have hc : c ≠ .writeShape .null := hcs c (List.mem_append_right _ List.mem_cons_self)
  have hacc : acceptedOf (cs ++ [c]) = acceptStep (cs.foldl acceptStep []) c := by
    simp [acceptedOf, List.foldl_append]
  obtain ⟨n, hm⟩ := crash_during_call_shp hinv c hc p hp k1 cut1
  obtain ⟨m, hmx⟩ := crash_during_call_shx hinv hx c hc p hp k2 cut2
  rw [hacc] at hok ⊢
  exact crashed_pair o tg _ _ n m _ _ hm hmx hok.sized hok.nonnull hok.types hok.accepts hok.total

/-! ### the whole history: independent crash points in the two operation logs -/

/-- all the operations a history of calls issues to one destination, in order (what the harness's
logging destinations record) -/
def histOps (d : DestId) (w : World) : List WCall → List IOOp
  | [] => []
  | c :: cs =>
    (match plan w.st c with
     | .ok p => opsFor d p.ops
     | .error _ => []) ++ histOps d (w.call c).1 cs

theorem applyOps_proj (w : World) (ops : List (DestId × IOOp)) :
    (ops.foldl World.applyOp w).shp = (opsFor .shp ops).foldl Dst.apply w.shp ∧
    (ops.foldl World.applyOp w).shx = (opsFor .shx ops).foldl Dst.apply w.shx := by
  induction ops generalizing w with
  | nil => exact ⟨rfl, rfl⟩
  | cons x xs ih =>
    obtain ⟨i, op⟩ := x
    cases i
    · have := ih (w.applyOp (.shp, op))
      simpa [opsFor, World.applyOp] using this
    · have := ih (w.applyOp (.shx, op))
      simpa [opsFor, World.applyOp] using this

theorem call_dests (w : World) (c : WCall) :
    (w.call c).1.shp = (match plan w.st c with | .ok p => opsFor .shp p.ops | .error _ => []).foldl Dst.apply w.shp ∧
    (w.call c).1.shx = (match plan w.st c with | .ok p => opsFor .shx p.ops | .error _ => []).foldl Dst.apply w.shx := by
  unfold World.call
  cases hp : plan w.st c with
  | error e => exact ⟨rfl, rfl⟩
  | ok p => exact applyOps_proj w p.ops

theorem Dst.applyPrefix_append (d : Dst) (ops1 ops2 : List IOOp) (k cut : Nat) :
    d.applyPrefix (ops1 ++ ops2) k cut =
      if k < ops1.length then d.applyPrefix ops1 k cut
      else (ops1.foldl Dst.apply d).applyPrefix ops2 (k - ops1.length) cut := by
  induction ops1 generalizing d k with
  | nil => simp
  | cons op ops ih =>
    cases k with
    | zero => simp [Dst.applyPrefix]
    | succ k =>
      simp only [List.cons_append, Dst.applyPrefix_cons_succ, List.length_cons, Nat.add_lt_add_iff_right, List.foldl_cons,
        Nat.add_sub_add_right]
      exact ih (d.apply op) k

theorem foldl_acceptStep_prefix (ss : List Shape) (cs : List WCall) : ∃ more, cs.foldl acceptStep ss = ss ++ more := by
  induction cs generalizing ss with
  | nil => exact ⟨[], by simp⟩
  | cons c cs ih =>
    obtain ⟨more, hm⟩ := ih (acceptStep ss c)
    simp only [List.foldl_cons, hm]
    cases c with
    | finalize => exact ⟨more, rfl⟩
    | writeShape s =>
      by_cases ha : accepts ss s
      · exact ⟨[s] ++ more, by simp [acceptStep, ha]⟩
      · exact ⟨more, by simp [acceptStep, ha]⟩

theorem recordsFrom_app (t : ShapeType) (k : Nat) (a b : List Shape) :
    recordsFrom t k (a ++ b) = recordsFrom t k a ++ recordsFrom t (k + a.length) b := by
  induction a generalizing k with
  | nil => simp [recordsFrom]
  | cons x xs ih =>
    simp only [List.cons_append, recordsFrom, ih, List.append_assoc, List.length_cons]
    congr 3
    omega

theorem entriesFrom_app (off : Nat) (a b : List Shape) :
    entriesFrom off (a ++ b) = entriesFrom off a ++ entriesFrom (off + totalWords a) b := by
  induction a generalizing off with
  | nil => simp [entriesFrom, totalWords]
  | cons x xs ih =>
    simp only [List.cons_append, entriesFrom, ih, List.append_assoc, totalWords]
    congr 3
    omega

/-- a prefix of the stream of a prefix of the shapes is a prefix of the stream of all of them -/
theorem records_lift (a b : List Shape) (n : Nat) :
    ∃ n', (recordsFrom (fileTypeOf a) 1 a).take n = (recordsFrom (fileTypeOf (a ++ b)) 1 (a ++ b)).take n' := by
  cases a with
  | nil => exact ⟨0, by simp [recordsFrom]⟩
  | cons x xs =>
    refine ⟨min n (recordsFrom (fileTypeOf (x :: xs)) 1 (x :: xs)).length, ?_⟩
    have : fileTypeOf (x :: xs ++ b) = fileTypeOf (x :: xs) := rfl
    rw [this, recordsFrom_app, List.take_append_of_le_length (Nat.min_le_right _ _), List.take_eq_take_min]

theorem entries_lift (a b : List Shape) (n : Nat) :
    ∃ n', (entriesFrom 50 a).take n = (entriesFrom 50 (a ++ b)).take n' := by
  refine ⟨min n (entriesFrom 50 a).length, ?_⟩
  rw [entriesFrom_app, List.take_append_of_le_length (Nat.min_le_right _ _), List.take_eq_take_min]

/-- MAIN (any crash point of the whole .shp operation log): the writer in any reachable state, any
further history of calls, the .shp holding ANY prefix of all the operations that history issues to it
with the last write cut anywhere: a header-sized region followed by a byte-prefix of the record
stream of the shapes the history accepts. -/
theorem crash_global_shp {w : World} {ss : List Shape} (h : WInv w ss) (cs : List WCall) (hcs : NonNullCalls cs)
    (k cut : Nat) :
    ∃ n, C12.Mid ((recordsFrom (fileTypeOf (cs.foldl acceptStep ss)) 1 (cs.foldl acceptStep ss)).take n)
      (w.shp.applyPrefix (histOps .shp w cs) k cut) := by
  induction cs generalizing w ss k with
  | nil =>
    refine ⟨(recordsFrom (fileTypeOf ss) 1 ss).length, ?_⟩
    simp only [histOps, Dst.applyPrefix_nil, List.foldl_nil, List.take_of_length_le (Nat.le_refl _)]
    exact (C12.WInv.toW h).shp
  | cons c cs ih =>
    have hc : c ≠ .writeShape .null := hcs c List.mem_cons_self
    have hcs' : NonNullCalls cs := fun x hx => hcs x (List.mem_cons_of_mem _ hx)
    have hnext := (h.call c hc).1
    have hcd := (call_dests w c).1
    cases hp : plan w.st c with
    | error e =>
      rw [hp] at hcd
      simp only [List.foldl_nil] at hcd
      simp only [histOps, List.foldl_cons, hp, List.nil_append]
      rw [← hcd]
      exact ih hnext hcs' k
    | ok p =>
      rw [hp] at hcd
      simp only [] at hcd
      simp only [histOps, List.foldl_cons, hp, Dst.applyPrefix_append]
      by_cases hk : k < (opsFor .shp p.ops).length
      · -- the crash is inside this call
        rw [if_pos hk]
        obtain ⟨n, hm⟩ := crash_during_call_shp h c hc p hp k cut
        obtain ⟨more, hmore⟩ := foldl_acceptStep_prefix (acceptStep ss c) cs
        obtain ⟨n', hn'⟩ := records_lift (acceptStep ss c) more n
        rw [hmore]
        exact ⟨n', by rw [← hn']; exact hm⟩
      · -- the crash is in a later call
        rw [if_neg hk, ← hcd]
        exact ih hnext hcs' _

/-- MAIN (any crash point of the whole .shx operation log) -/
theorem crash_global_shx {w : World} {ss : List Shape} (h : WInv w ss) (hx : w.st.hasShx = true) (cs : List WCall)
    (hcs : NonNullCalls cs) (k cut : Nat) :
    ∃ n, C12.Mid ((entriesFrom 50 (cs.foldl acceptStep ss)).take n) (w.shx.applyPrefix (histOps .shx w cs) k cut) := by
  induction cs generalizing w ss k with
  | nil =>
    refine ⟨(entriesFrom 50 ss).length, ?_⟩
    simp only [histOps, Dst.applyPrefix_nil, List.foldl_nil, List.take_of_length_le (Nat.le_refl _)]
    exact (C12.WInv.toW h).shx hx
  | cons c cs ih =>
    have hc : c ≠ .writeShape .null := hcs c List.mem_cons_self
    have hcs' : NonNullCalls cs := fun x hx => hcs x (List.mem_cons_of_mem _ hx)
    have hnext := h.call c hc
    have hcd := (call_dests w c).2
    cases hp : plan w.st c with
    | error e =>
      rw [hp] at hcd
      simp only [List.foldl_nil] at hcd
      simp only [histOps, List.foldl_cons, hp, List.nil_append]
      rw [← hcd]
      exact ih hnext.1 (hnext.2.trans hx) hcs' k
    | ok p =>
      rw [hp] at hcd
      simp only [] at hcd
      simp only [histOps, List.foldl_cons, hp, Dst.applyPrefix_append]
      by_cases hk : k < (opsFor .shx p.ops).length
      · rw [if_pos hk]
        obtain ⟨n, hm⟩ := crash_during_call_shx h hx c hc p hp k cut
        obtain ⟨more, hmore⟩ := foldl_acceptStep_prefix (acceptStep ss c) cs
        obtain ⟨n', hn'⟩ := entries_lift (acceptStep ss c) more n
        rw [hmore]
        exact ⟨n', by rw [← hn']; exact hm⟩
      · rw [if_neg hk, ← hcd]
        exact ih hnext.1 (hnext.2.trans hx) hcs' _

/-- MAIN (C11, end to end): ANY history of calls on a writer with an index, the two operation logs
cut INDEPENDENTLY at any operation and any byte.  A reader opened on what was persisted — with the
index or without — reports an error, or yields only shapes that were written, at their positions:
without the index a prefix of them then at most one I/O error; with it, position by position the
shape written there or an I/O error.  Never another shape, never a reordered one, never a panic. -/
theorem crash_global (o : Orient) (tg : Target) (cs : List WCall) (k1 cut1 k2 cut2 : Nat)
    (hcs : NonNullCalls cs) (hok : FileOK tg (acceptedOf cs)) :
    let shp := (Dst.empty.applyPrefix (histOps .shp (World.init true) cs) k1 cut1).data
    let shx := (Dst.empty.applyPrefix (histOps .shx (World.init true) cs) k2 cut2).data
    ((∀ e, RState.open shp none = .error e → ∃ er, e = .err er) ∧
     (∀ st, RState.open shp none = .ok st → ∀ fuel, PrefixThenError o (acceptedOf cs) (st.iterAll o tg fuel).2)) ∧
    ((∀ e, RState.open shp (some shx) = .error e → ∃ er, e = .err er) ∧
     (∀ st, RState.open shp (some shx) = .ok st →
       (∀ fuel, Faithful ((acceptedOf cs).map (Shape.readBack o)) (st.iterAll o tg fuel).2) ∧
       (∀ i, (st.readNth o tg i).2 = .none ∨ (st.readNth o tg i).2 = .err .io ∨
         (∃ hi : i < ((acceptedOf cs).map (Shape.readBack o)).length,
           (st.readNth o tg i).2 = .shape ((acceptedOf cs).map (Shape.readBack o))[i])))) := by
  intro shp shx
  obtain ⟨n, hm⟩ := crash_global_shp (WInv.init true) cs hcs k1 cut1
  obtain ⟨m, hmx⟩ := crash_global_shx (WInv.init true) rfl cs hcs k2 cut2
  have hl := length_le_totalWords (acceptedOf cs)
  have htot := hok.total
  exact ⟨crashed_file o tg _ _ n _ hm hok.sized hok.nonnull hok.types hok.accepts (by omega),
    crashed_pair o tg _ _ n m _ _ hm hmx hok.sized hok.nonnull hok.types hok.accepts hok.total⟩

/-- non-vacuity -/
example (o : Orient) : PrefixThenError o [Shape.point .xy Pt.default] [ROut.err .io] :=
  ⟨0, by simp, Or.inr (by simp)⟩
example : Faithful [Shape.point .xy Pt.default, Shape.point .xy Pt.default]
    [ROut.shape (Shape.point .xy Pt.default), ROut.err .io] := ⟨Or.inl rfl, Or.inr rfl, trivial⟩
/-- the hypotheses of `crash_anywhere_pair` are met by a real history: one point written, crash
during the finalize that follows -/
example : NonNullCalls ([WCall.writeShape (Shape.point .xy Pt.default)] ++ [WCall.finalize]) ∧
    plan ((World.init true).run [WCall.writeShape (Shape.point .xy Pt.default)]).st .finalize =
      .ok (planFinalize ((World.init true).run [WCall.writeShape (Shape.point .xy Pt.default)]).st) :=
  ⟨by intro c hc; simp at hc; rcases hc with rfl | rfl <;> simp, rfl⟩

end Shp.C11

/-
C01 — write-then-read round trip preserves every shape exactly.
Record level: `Shp.readContentOf_encodeContent`, `Shp.readOneShape_encRecord` (Lemmas/Record, Frame);
file level and the meaning of the read-side normalisation here.
-/
import Shp.Props.C04
namespace Shp.C01
open Shp

/-- MAIN (file level): any sequence of shapes of one type that is written with the shape writer
and read back — generically or as its concrete type, sequentially with or without the index, or
by random access — yields the same number of shapes in the same order, each normalised by
`readBack`. `n` is unbounded; the only hypothesis is the format's own `i32` limit. -/
theorem roundtrip (o : Orient) (tg : Target) (ss : List Shape) (hok : FileOK tg ss) :
    writeFiles true ss = (shpFile ss, shxFile ss) ∧
    (writeFiles false ss).1 = shpFile ss ∧
    readAll o tg (shpFile ss) (some (shxFile ss)) = .ok (ss.map (Shape.readBack o)) ∧
    readAll o tg (shpFile ss) none = .ok (ss.map (Shape.readBack o)) ∧
    ∃ st, RState.open (shpFile ss) (some (shxFile ss)) = .ok st ∧
      (∀ i (hi : i < ss.length), (st.readNth o tg i).2 = .shape (ss[i].readBack o)) ∧
      (∀ i, ss.length ≤ i → (st.readNth o tg i).2 = .none) := by
  have hw := C04.written_files ss hok.homog hok.nonnull
  have h2 := C04.read_without_index o tg ss hok []
  rw [List.append_nil] at h2
  obtain ⟨st, hopen, _, hnth, hnone⟩ := C04.random_access o tg ss hok
  exact ⟨hw.1, hw.2, C04.read_with_index o tg ss hok, h2, st, hopen, hnth, hnone⟩

/-! ### what `readBack` does and does not change -/

theorem noData_notNaN : F64.noData.isNaN = false := by decide

/-- measures: bit-identical, except that a NaN or a value at/below the no-data threshold is
reported as exactly NO_DATA -/
theorem maxNoData_spec (v : F64) : v.maxNoData = if v.isNaN || v.le F64.noData then F64.noData else v := by
  unfold F64.maxNoData
  by_cases hn : v.isNaN = true
  · simp [hn]
  · have hn' : v.isNaN = false := by simpa using hn
    simp only [hn', Bool.false_or, Bool.false_eq_true, if_false]
    unfold F64.lt F64.le
    simp only [noData_notNaN, hn', Bool.not_false, Bool.true_and]
    by_cases h : F64.noData.key < v.key
    · have : ¬ v.key ≤ F64.noData.key := by omega
      simp [h, this]
    · have : v.key ≤ F64.noData.key := by omega
      simp [h, this]

/-- X, Y and (for Z types) Z of every vertex come back bit-identical -/
theorem readBack_xyz (d : Dim) (p : Pt) :
    (p.readBack d).x = p.x ∧ (p.readBack d).y = p.y ∧ (d.hasZ = true → (p.readBack d).z = p.z) ∧
    (d.hasM = true → (p.readBack d).m = p.m.maxNoData) := by
  refine ⟨rfl, rfl, ?_, ?_⟩ <;> intro h <;> simp [Pt.readBack, h]

/-- a vertex whose measure is real data (and whose absent coordinates are the defaults) comes
back bit-identical in every coordinate -/
theorem readBack_id (d : Dim) (p : Pt) (hc : p.Canon d) (hm : d.hasM = true → (p.m.isNaN || p.m.le F64.noData) = false) :
    p.readBack d = p := by
  obtain ⟨hz, hmc⟩ := hc
  cases d <;> simp only [Dim.hasZ, Dim.hasM, Bool.false_eq_true, forall_const, Bool.true_eq_false, false_implies] at hz hmc hm <;>
    simp [Pt.readBack, Dim.hasZ, Dim.hasM, maxNoData_spec, *] <;> (cases p; simp_all)

/-- the per-shape box is returned bit-identically (for boxes of typed values) -/
theorem readRaw_box_id (d : Dim) (b : BBox) (hc : b.Canon d) : b.readRaw d = b := by
  obtain ⟨⟨hz1, hm1⟩, ⟨hz2, hm2⟩⟩ := hc
  cases d <;> simp only [Dim.hasZ, Dim.hasM, Bool.false_eq_true, forall_const, Bool.true_eq_false, false_implies] at hz1 hm1 hz2 hm2 <;>
    (cases b with | mk mn mx => cases mn; cases mx; simp_all [BBox.readRaw, Pt.readRaw, Dim.hasZ, Dim.hasM])

/-- single points are not normalised at all -/
theorem readRaw_point_id (d : Dim) (p : Pt) (hc : p.Canon d) : p.readRaw d = p := by
  obtain ⟨hz, hm⟩ := hc
  cases d <;> simp only [Dim.hasZ, Dim.hasM, Bool.false_eq_true, forall_const, Bool.true_eq_false, false_implies] at hz hm <;>
    (cases p; simp_all [Pt.readRaw, Dim.hasZ, Dim.hasM])

/-- structure is untouched: same variant, same number of parts, same part lengths, same patch kinds -/
theorem readBack_structure (o : Orient) (s : Shape) :
    (s.readBack o).variant = s.variant ∧
    (s.readBack o).parts.map List.length = s.parts.map List.length := by
  cases s with
  | null => exact ⟨rfl, rfl⟩
  | point d p => cases d <;> exact ⟨rfl, rfl⟩
  | multipoint d b pts => cases d <;> simp [Shape.readBack, Shape.variant, Shape.parts]
  | polyline d b parts => cases d <;> simp [Shape.readBack, Shape.variant, Shape.parts, Function.comp]
  | polygon d b rings => cases d <;> simp [Shape.readBack, Shape.variant, Shape.parts, Function.comp]
  | multipatch b patches => simp [Shape.readBack, Shape.variant, Shape.parts, Function.comp]

theorem readBack_patch_kinds (o : Orient) (b : BBox) (patches : List (PatchKind × List Pt)) :
    ∃ b' ps', (Shape.multipatch b patches).readBack o = .multipatch b' ps' ∧ ps'.map (·.1) = patches.map (·.1) := by
  refine ⟨_, _, rfl, ?_⟩
  simp [Function.comp]

/-- ring roles after reading are those recomputed from the vertex order -/
theorem readBack_roles (o : Orient) (d : Dim) (b : BBox) (rings : List (Role × List Pt)) :
    ∃ b' rs', (Shape.polygon d b rings).readBack o = .polygon d b' rs' ∧ ∀ r ∈ rs', r.1 = roleOf o r.2 := by
  refine ⟨_, _, rfl, ?_⟩
  intro r hr
  simp only [List.mem_map] at hr
  obtain ⟨r0, _, rfl⟩ := hr
  rfl

/-- non-vacuity: a concrete two-record PolylineM file meets the hypothesis -/
example : FileOK .generic [Shape.polyline .xym BBox.default [[Pt.default, Pt.default]],
    Shape.polyline .xym BBox.default [[Pt.default, Pt.default], [Pt.default, Pt.default]]] := by
  refine ⟨⟨by decide, by intro x hx; simp at hx; subst hx; rfl⟩, ?_, ?_, ?_, ?_⟩
  · intro s hs; simp at hs; rcases hs with rfl | rfl <;> decide
  · intro s hs; simp at hs; rcases hs with rfl | rfl <;> simp
  · intro s hs; trivial
  · decide

end Shp.C01

/-
`shpdriver`: evaluates the Lean model on the harness's case lines (one result line per case).
Imports only Prim/Gen/Model/Spec — no Mathlib — so it links as a native executable.
-/
import Driver.Proto
import Shp.Spec.Gen
import Shp.Spec.Expected
import Shp.Model.Pairs
import Shp.Model.PairsRead
import Shp.Model.Geo
open Shp Shp.Proto

def toFloat (f : F64) : Float := Float.ofBits f.bits

/-- `ring_type_from_points_ordering` evaluated with the machine's IEEE doubles -/
def orientFloat : Orient := fun pts =>
  let rec go : List Pt → Float → Float
    | a :: b :: rest, acc => go (b :: rest) (acc + (toFloat b.x - toFloat a.x) * (toFloat b.y + toFloat a.y))
    | _, acc => acc
  go pts 0.0 / 2.0 < 0.0

def o : Orient := orientFloat

def showOps (ops : List IOOp) : String :=
  -- coalesce adjacent writes
  let rec go : List IOOp → Option Nat → List String → List String
    | [], some n, acc => (s!"W{n}" :: acc)
    | [], none, acc => acc
    | .write bs :: rest, some n, acc => go rest (some (n + bs.length)) acc
    | .write bs :: rest, none, acc => go rest (some bs.length) acc
    | op :: rest, pending, acc =>
      let acc := match pending with | some n => s!"W{n}" :: acc | none => acc
      let t := match op with
        | .seekStart n => s!"S{n}" | .seekEnd => "E" | .flush => "F" | .write _ => ""
      go rest none (t :: acc)
  let l := (go ops none []).reverse
  if l.isEmpty then "-" else String.intercalate "," l

def showExcept (r : Except Err Unit) : String :=
  match r with
  | .ok _ => "ok"
  | .error e => "err " ++ showErr e

/-- parse `nops` writer ops: `w <ctor>` or `f` -/
def wops (n : Nat) : P (List (Option WCall)) :=
  many n (do
    match (← tok) with
    | "w" => do
      match (← ctor o) with
      | some s => pure (some (.writeShape s))
      | none => pure none
    | "f" => pure (some .finalize)
    | _ => failP)

def f64OfNat (n : Nat) : F64 := ⟨(Float.ofNat n).toBits⟩
def f64Half : F64 := ⟨(0.5 : Float).toBits⟩

/-- count the records of a `.shp` by walking its record headers -/
partial def countRecords (bs : Bytes) (pos : Nat) (acc : Nat) : Nat :=
  match (bs.drop (pos + 4)) with
  | a :: b :: c :: d :: _ =>
    let len := decU32BE a b c d
    if len < 2 then acc else countRecords bs (pos + 8 + 2 * len) (acc + 1)
  | _ => acc

def pairShape (base : String) (q : Nat) : Option Shape :=
  let v := f64OfNat q
  match base with
  | "PointZ" => some (.point .xyzm ⟨v, f64OfNat 1, f64OfNat 2, f64OfNat 3⟩)
  | "Polyline" => Shape.mkPolyline .xy [{ Pt.default with x := v, y := f64OfNat 0 }, { Pt.default with x := v, y := f64OfNat (1 + q) }]
  | _ => some (.point .xy { Pt.default with x := v, y := f64Half })

def otherShape (base : String) (q : Nat) : Option Shape :=
  let v := f64OfNat q
  if base = "Polyline" then some (.point .xy { Pt.default with x := v, y := f64OfNat 0 })
  else Shape.mkPolyline .xy [{ Pt.default with x := v, y := f64OfNat 0 }, { Pt.default with x := v, y := f64OfNat 1 }]

def showCs (l : List Pt) : String :=
  toString l.length ++ String.join (l.map fun p => " " ++ showF64 p.x ++ " " ++ showF64 p.y)

def showGPoly (p : GPoly) : String :=
  showCs p.ext ++ " " ++ toString p.ints.length ++ String.join (p.ints.map fun i => " " ++ showCs i)

def showGeom : Geom → String
  | .point p => "gpoint " ++ showF64 p.x ++ " " ++ showF64 p.y
  | .line a b => "gline " ++ showF64 a.x ++ " " ++ showF64 a.y ++ " " ++ showF64 b.x ++ " " ++ showF64 b.y
  | .lineString l => "gls " ++ showCs l
  | .multiPoint l => "gmpoint " ++ showCs l
  | .multiLineString ls => "gmls " ++ toString ls.length ++ String.join (ls.map fun l => " " ++ showCs l)
  | .polygon p => "gpoly " ++ showGPoly p
  | .multiPolygon ps => "gmpoly " ++ toString ps.length ++ String.join (ps.map fun p => " " ++ showGPoly p)
  | .collection => "gcoll"
  | .rect => "grect"
  | .triangle => "gtri"

def cs : P (List Pt) := do
  let n ← nat
  many n (do let x ← f64; let y ← f64; pure { Pt.default with x := x, y := y })

def gpoly : P GPoly := do
  let e ← cs
  let k ← nat
  let ints ← many k cs
  pure (GPoly.new e ints)

def geom : P Geom := do
  match (← tok) with
  | "gpoint" => do let x ← f64; let y ← f64; pure (.point { Pt.default with x := x, y := y })
  | "gline" => do
    let x ← f64; let y ← f64; let x2 ← f64; let y2 ← f64
    pure (.line { Pt.default with x := x, y := y } { Pt.default with x := x2, y := y2 })
  | "gls" => do pure (.lineString (← cs))
  | "gmpoint" => do pure (.multiPoint (← cs))
  | "gmls" => do let n ← nat; pure (.multiLineString (← many n cs))
  | "gpoly" => do pure (.polygon (← gpoly))
  | "gmpoly" => do let n ← nat; pure (.multiPolygon (← many n gpoly))
  | "gcoll" => pure .collection
  | "grect" => pure .rect
  | "gtri" => pure .triangle
  | _ => failP

def runCase (verb : String) : P String := do
  match verb with
  | "construct" => do
    match (← ctor o) with
    | some s => pure (showShape s)
    | none => pure "panic"
  | "size" => do
    match (← ctor o) with
    | some s => pure s!"{s.sizeInBytes} {s.encodeContent.length} {recordSizeWords s}"
    | none => pure "panic"
  | "write" => do
    let withShx ← nat
    let n ← nat
    let shapes ← many n (ctor o)
    if shapes.any Option.isNone then pure "panic" else
    let (shp, shx) := writeFiles (withShx = 1) (shapes.filterMap id)
    pure (hexBytes shp ++ " " ++ hexBytes shx)
  | "writeh" => do
    -- the same shapes written through a history with finalize calls and rejected writes interleaved
    -- (route number ignored): by C09 and C10 the files are those of the plain history
    let _route ← tok
    let withShx ← nat
    let n ← nat
    let shapes ← many n (ctor o)
    if shapes.any Option.isNone then pure "panic" else
    let (shp, shx) := writeFiles (withShx = 1) (shapes.filterMap id)
    pure (hexBytes shp ++ " " ++ hexBytes shx)
  | "whist" => do
    let withShx ← nat
    let ending ← tok
    let n ← nat
    let ops ← wops n
    if ops.any Option.isNone then pure "panic" else
    let ops := ops.filterMap id
    -- run, logging the ops each call issues
    let step := fun (acc : World × List String × List IOOp × List IOOp) (c : WCall) =>
      let (w, outs, l1, l2) := acc
      match plan w.st c with
      | .error e => (w, ("err " ++ showErr e) :: outs, l1, l2)
      | .ok p =>
        let w' := (w.call c).1
        (w', "ok" :: outs, l1 ++ (p.ops.filter (·.1 = .shp)).map (·.2), l2 ++ (p.ops.filter (·.1 = .shx)).map (·.2))
    let (w, outs, l1, l2) := ops.foldl step (World.init (withShx = 1), [], [], [])
    let tail := if ending = "fdrop" then [WCall.finalize, WCall.finalize] else [WCall.finalize]
    let (w, _, l1, l2) := tail.foldl step (w, [], l1, l2)
    pure (String.intercalate " ; " outs.reverse ++ " | " ++ hexBytes w.shp.data ++ " " ++ hexBytes w.shx.data ++
          " | " ++ showOps l1 ++ " " ++ showOps l2)
  | "wfault" => do
    let withShx ← nat
    let dest ← tok
    let kind ← tok
    let k ← nat
    let persistent ← nat
    let n ← nat
    let ops ← wops n
    if ops.any Option.isNone then pure "panic" else
    let ops := ops.filterMap id
    let f : Fault := match kind with
      | "write" => .writeAfter k | "seek" => .seekAt k | "flush" => .flushAt k | _ => .none
    let fw0 : FWorld := { w := World.init (withShx = 1), shpFault := if dest = "shp" then f else .none,
                          shxFault := if dest = "shx" then f else .none, persistent := persistent = 1 }
    let (fw, outs) := ops.foldl (fun (acc : FWorld × List String) c =>
      let (fw', r) := acc.1.call c
      (fw', showExcept r :: acc.2)) (fw0, [])
    let fw := (fw.call .finalize).1   -- drop
    pure (String.intercalate " ; " outs.reverse ++ " | " ++ hexBytes fw.w.shp.data ++ " " ++ hexBytes fw.w.shx.data)
  | "read" => do
    let tg ← target
    let shp ← bytes
    let shxTok ← tok
    let shx : Option Bytes := if shxTok = "none" then none else bytesOfHex shxTok
    match RState.open shp shx with
    | .error e => pure ("open " ++ showROut e)
    | .ok st =>
      let outs := (st.iterAll o tg st.fuel).2
      pure ("open ok" ++ String.join (outs.map fun r => " ; " ++ showROut r))
  | "readflat" => do
    let tg ← target
    let shp ← bytes
    let shxTok ← tok
    let shx : Option Bytes := if shxTok = "none" then none else bytesOfHex shxTok
    match RState.open shp shx with
    | .error e => pure ("open " ++ showROutFlat e)
    | .ok st =>
      let outs := (st.iterAll o tg st.fuel).2
      pure ("open ok" ++ String.join (outs.map fun r => " ; " ++ showROutFlat r))
  | "specdecode" => do
    let shp ← bytes
    match Spec.decodeFile shp with
    | some f => pure (Spec.flatFile true f)
    | none => pure "rejected"
  | "rhist" => do
    let tg ← target
    let shp ← bytes
    let shxTok ← tok
    let shx : Option Bytes := if shxTok = "none" then none else bytesOfHex shxTok
    let n ← nat
    let ops ← many n (do
      let t ← tok
      let k ← nat
      pure (t, k))
    match RState.open shp shx with
    | .error e => pure ("open " ++ showROut e)
    | .ok st =>
      let toOp : String × Nat → Option (RState → ROp) := fun op =>
        match op.1 with
        | "it" => some (fun st => .iter (if op.2 = 99 then st.fuel else op.2))
        | "nth" => some (fun _ => .nth op.2)
        | "seek" => some (fun _ => .seek op.2)
        | "count" => some (fun _ => .count)
        | "hint" => some (fun _ => .hint)
        | _ => none
      let showRes : RRes → String
        | .items rs => "it[" ++ String.intercalate " ; " (rs.map showROut) ++ "]"
        | .one r => showROut r
        | .hintRes (some n) => s!"hint {n}"
        | .hintRes none => "hint none"
      let (_, outs) := ops.foldl (fun (acc : RState × List String) (op : String × Nat) =>
        let (st, outs) := acc
        match toOp op with
        | some f => let (st', r) := st.step o tg (f st); (st', showRes r :: outs)
        | none => (st, "bad-op" :: outs)) (st, [])
      pure ("open ok ; " ++ String.intercalate " ; " outs.reverse)
  | "prhist" => do
    let shp ← bytes
    let shx ← bytes
    let rows ← nat
    let n ← nat
    let ops ← many n (do
      let t ← tok
      let k ← nat
      pure (t, k))
    match RState.open shp (some shx) with
    | .error e => pure ("open " ++ showROut e)
    | .ok st =>
      let showP : POut → String
        | .pair s r => "ok " ++ showShape s ++ " row " ++ toString r
        | .err e => "err " ++ showErr e
        | .panic m => "panic " ++ m
      let (_, outs) := ops.foldl (fun (acc : PReader × List String) (op : String × Nat) =>
        let (pr, outs) := acc
        match op.1 with
        | "it" =>
          let r := pr.iterPairs o .generic (if op.2 = 99 then pr.rs.fuel else op.2) 0
          (r.1, ("it[" ++ String.intercalate " ; " (r.2.map showP) ++ "]") :: outs)
        | "seek" => let r := pr.seek op.2; (r.1, showROut r.2 :: outs)
        | _ => (pr, "bad-op" :: outs)) ((⟨st, 0, rows⟩ : PReader), [])
      pure ("open ok ; " ++ String.intercalate " ; " outs.reverse)
  | "geo" => do
    match (← tok) with
    | "s2g" => do
      match (← ctor o) with
      | none => pure "panic"
      | some s => match shapeToGeom s with
        | .ok g => pure (showGeom g)
        | .err => pure "err"
        | .panic => pure "panic"
    | "g2s" => do
      let g ← geom
      match geomToShape o g with
      | .ok s => pure (showShape s)
      | .err => pure "err"
      | .panic => pure "panic"
    | "dims" => do
      let d ← dim
      let ps ← pts d
      match ps with
      | p :: _ =>
        let n := dimCount d p
        let vals := (List.range n).map fun i => nthOrPanic d p i
        if vals.any Option.isNone then pure "panic"
        else pure (s!"dim {n}" ++ String.join (vals.map fun v => " " ++ showF64 (v.getD F64.zero)))
      | [] => failP
    | _ => failP
  | "dbfhist" => do
    let base ← tok
    let n ← nat
    let ops ← many n tok
    let (pw, outs, _) := ops.foldl (fun (acc : PWorld × List String × Nat) (op : String) =>
      let (pw, outs, q) := acc
      let shape := if op = "s" ∧ q > 0 then otherShape base q else pairShape base q
      match shape with
      | none => (pw, "panic" :: outs, q + 1)
      | some s =>
        let (pw', r) := pw.call s (op = "g" ∨ op = "s")
        (pw', showExcept r :: outs, q + 1)) (PWorld.init, [], 0)
    let w := pw.w.drop
    let nshp := countRecords w.shp.data 100 0
    let nshx := (w.shx.data.length - 100) / 8
    pure (String.intercalate " ; " outs.reverse ++ s!" | shp={nshp} shx={nshx} dbf={pw.rows}")
  | "code" => do
    let c ← int
    match ShapeType.ofCode c with
    | some t => pure s!"some {t.name} {t.code} {t.hasZ} {t.hasM} {t.isMultipart}"
    | none => pure "none"
  | "ring" => do
    let d ← dim
    let r ← role
    let ps ← pts d
    let (r', ps') := closeAndReorder o d (r, ps)
    pure (showRole r' ++ " " ++ showPts d ps')
  | _ => failP

def processLine (line : String) : String :=
  match line.trimAscii.toString.splitOn " " |>.filter (· ≠ "") with
  | id :: verb :: rest =>
    match runCase verb rest with
    | some (out, []) => id ++ " " ++ out
    | some (_, _) => id ++ " bad-case trailing-tokens"
    | none => id ++ " bad-case"
  | _ => "? bad-line"

partial def loop (h : IO.FS.Stream) (out : IO.FS.Stream) : IO Unit := do
  let line ← h.getLine
  if line.isEmpty then return ()
  if line.trimAscii.toString.isEmpty then loop h out else
  out.putStrLn (processLine line)
  loop h out

/-- `open ok ; ok <flat shape> ; ...` from the theorem's own `Rec.expected` -/
def expectFromTheorem (recs : List Spec.Rec) : String :=
  "open ok" ++ String.join (recs.map fun r => " ; ok " ++ flatShape (r.expected o))

/-- `shpdriver gen spec|perm <seed> <n>`: spec-conformant files + what a conforming reader returns -/
def genMain (kind : String) (seed n : Nat) : IO Unit := do
  let mut rng : Spec.Rng := ⟨UInt64.ofNat (seed * 2654435761 + 12345)⟩
  let mut stats : List (String × Nat) := []
  let bump := fun (st : List (String × Nat)) (k : String) =>
    match st.find? (·.1 = k) with
    | some _ => st.map fun (a, b) => if a = k then (a, b + 1) else (a, b)
    | none => (k, 1) :: st
  for i in [0:n] do
    if kind = "spec" then
      let (f, r) := Spec.genFile rng
      rng := r
      let bytes := Spec.encodeFile f
      let id := s!"C03-{i}"
      IO.println s!"CASE {id}f readflat generic {Spec.hexOf bytes} none"
      IO.println s!"EXPECT {id}f {expectFromTheorem f.records}"
      -- the whitepaper-side rendering must say the same thing (two independent expectation printers)
      if expectFromTheorem f.records ≠ Spec.expectRead f.records then
        IO.println s!"EXPECT {id}x spec-printers-disagree"
      IO.println s!"CASE {id}r read generic {Spec.hexOf bytes} none"
      stats := bump stats s!"type.{f.typeCode}"
      stats := bump stats s!"records.{f.records.length}"
      for rc in f.records do
        if rc.typeCode = 0 then stats := bump stats "rec.null"
        else if !rc.mPresent then stats := bump stats "rec.m-absent" else stats := bump stats "rec.m-present"
        if rc.parts.isEmpty then stats := bump stats "rec.zero-parts"
        if rc.parts.any (·.length ≤ 1) then stats := bump stats "rec.part-with-0-or-1-vertex"
      if !f.trailing.isEmpty then stats := bump stats "file.trailing-bytes"
    else
      let ((shp, shx, recs), r) := Spec.genPermuted rng
      rng := r
      let id := s!"C14-{i}"
      IO.println s!"CASE {id}f readflat generic {Spec.hexOf shp} {Spec.hexOf shx}"
      IO.println s!"EXPECT {id}f {expectFromTheorem recs}"
      let n := recs.length
      let nths := String.join ((List.range (n + 1)).reverse.map fun k => s!" nth {k}")
      IO.println s!"CASE {id}h rhist generic {Spec.hexOf shp} {Spec.hexOf shx} {n + 7} count 0{nths} it 1 hint 0 it 99 seek 1 it 99"
      stats := bump stats s!"records.{n}"
  for (k, v) in stats do
    IO.println s!"STAT {k} {v}"

def main (args : List String) : IO Unit := do
  match args with
  | ["gen", kind, seed, n] => genMain kind seed.toNat! n.toNat!
  | _ =>
    let stdin ← IO.getStdin
    let stdout ← IO.getStdout
    loop stdin stdout

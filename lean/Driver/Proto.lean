/-
Line protocol shared with the Rust harness (DESIGN Appendix B): tokenised, prefix-coded,
floats as 16 hex digits of the bit pattern, byte strings as one hex token (`-` = empty).
-/
import Shp.Model.Reader
namespace Shp.Proto
open Shp

abbrev P (α : Type) := List String → Option (α × List String)

@[inline] def P.pure {α} (a : α) : P α := fun ts => some (a, ts)
@[inline] def P.bind {α β} (p : P α) (f : α → P β) : P β := fun ts =>
  match p ts with
  | some (a, ts') => f a ts'
  | none => none
instance : Monad P where
  pure := P.pure
  bind := P.bind

def tok : P String := fun ts => match ts with
  | t :: ts => some (t, ts)
  | [] => none

def failP {α} : P α := fun _ => none

def hexVal (c : Char) : Option Nat :=
  if '0' ≤ c ∧ c ≤ '9' then some (c.toNat - '0'.toNat)
  else if 'a' ≤ c ∧ c ≤ 'f' then some (c.toNat - 'a'.toNat + 10)
  else if 'A' ≤ c ∧ c ≤ 'F' then some (c.toNat - 'A'.toNat + 10)
  else none

def parseHexNat (s : String) : Option Nat :=
  s.toList.foldl (fun acc c => match acc, hexVal c with
    | some a, some v => some (a * 16 + v)
    | _, _ => none) (some 0)

def nat : P Nat := do
  let t ← tok
  match t.toNat? with
  | some n => pure n
  | none => failP

def int : P Int := do
  let t ← tok
  match t.toInt? with
  | some n => pure n
  | none => failP

def f64 : P F64 := do
  let t ← tok
  if t.length ≠ 16 then failP else
  match parseHexNat t with
  | some n => pure (F64.ofNat n)
  | none => failP

def bytesOfHex (s : String) : Option Bytes :=
  if s = "-" then some [] else
  let rec go : List Char → List UInt8 → Option (List UInt8)
    | [], acc => some acc.reverse
    | [_], _ => none
    | a :: b :: rest, acc => match hexVal a, hexVal b with
      | some x, some y => go rest (UInt8.ofNat (x * 16 + y) :: acc)
      | _, _ => none
  go s.toList []

def bytes : P Bytes := do
  let t ← tok
  match bytesOfHex t with
  | some b => pure b
  | none => failP

def dim : P Dim := do
  match (← tok) with
  | "xy" => pure .xy
  | "xym" => pure .xym
  | "xyzm" => pure .xyzm
  | _ => failP

def pt (d : Dim) : P Pt := do
  let x ← f64
  let y ← f64
  let z ← if d.hasZ then f64 else pure F64.zero
  let m ← if d.hasM then f64 else pure F64.noData
  pure ⟨x, y, z, m⟩

def many {α} (n : Nat) (p : P α) : P (List α) :=
  match n with
  | 0 => pure []
  | n + 1 => do
    let a ← p
    let as ← many n p
    pure (a :: as)

def pts (d : Dim) : P (List Pt) := do
  let n ← nat
  many n (pt d)

def role : P Role := do
  match (← tok) with
  | "outer" => pure .outer
  | "inner" => pure .inner
  | _ => failP

def patchKind : P PatchKind := do
  match (← tok) with
  | "strip" => pure .triangleStrip
  | "fan" => pure .triangleFan
  | "outer" => pure .outerRing
  | "inner" => pure .innerRing
  | "first" => pure .firstRing
  | "ring" => pure .ring
  | _ => failP

/-- a constructor call; `none` result = the constructor panics -/
def ctor (o : Orient) : P (Option Shape) := do
  match (← tok) with
  | "point" => do let d ← dim; let p ← pt d; pure (some (.point d p))
  | "multipoint" => do let d ← dim; let ps ← pts d; pure (Shape.mkMultipoint d ps)
  | "polyline" => do let d ← dim; let ps ← pts d; pure (Shape.mkPolyline d ps)
  | "polylineparts" => do
    let d ← dim; let n ← nat; let parts ← many n (pts d); pure (Shape.mkPolylineParts d parts)
  | "polygon" => do
    let d ← dim; let r ← role; let ps ← pts d; pure (Shape.mkPolygon o d (r, ps))
  | "polygonrings" => do
    let d ← dim; let n ← nat
    let rings ← many n (do let r ← role; let ps ← pts d; pure (r, ps))
    pure (Shape.mkPolygonRings o d rings)
  | "multipatch" => do
    let k ← patchKind; let ps ← pts .xyzm; pure (Shape.mkMultipatch (k, ps))
  | "multipatchparts" => do
    let n ← nat
    let patches ← many n (do let k ← patchKind; let ps ← pts .xyzm; pure (k, ps))
    pure (Shape.mkMultipatchParts patches)
  | _ => failP

/-! ### printing -/

def hexDigit (n : Nat) : Char :=
  if n < 10 then Char.ofNat ('0'.toNat + n) else Char.ofNat ('a'.toNat + n - 10)

def hexByte (b : UInt8) : String :=
  String.ofList [hexDigit (b.toNat / 16), hexDigit (b.toNat % 16)]

def hexBytes (bs : Bytes) : String :=
  if bs.isEmpty then "-" else String.join (bs.map hexByte)

def showF64 (f : F64) : String :=
  String.join ((encU64LE f.bits.toNat).reverse.map hexByte)

def showDim : Dim → String
  | .xy => "xy" | .xym => "xym" | .xyzm => "xyzm"

def showPt (d : Dim) (p : Pt) : String :=
  showF64 p.x ++ " " ++ showF64 p.y ++ (if d.hasZ then " " ++ showF64 p.z else "") ++
  (if d.hasM then " " ++ showF64 p.m else "")

def showPts (d : Dim) (ps : List Pt) : String :=
  toString ps.length ++ String.join (ps.map fun p => " " ++ showPt d p)

def showBBox (d : Dim) (b : BBox) : String :=
  showF64 b.min.x ++ " " ++ showF64 b.min.y ++ " " ++ showF64 b.max.x ++ " " ++ showF64 b.max.y ++
  (if d.hasZ then " " ++ showF64 b.min.z ++ " " ++ showF64 b.max.z else "") ++
  (if d.hasM then " " ++ showF64 b.min.m ++ " " ++ showF64 b.max.m else "")

def showRole : Role → String
  | .outer => "outer" | .inner => "inner"

def showKind : PatchKind → String
  | .triangleStrip => "strip" | .triangleFan => "fan" | .outerRing => "outer"
  | .innerRing => "inner" | .firstRing => "first" | .ring => "ring"

def showShape : Shape → String
  | .null => "null"
  | .point d p => "point " ++ showDim d ++ " " ++ showPt d p
  | .multipoint d b ps => "multipoint " ++ showDim d ++ " " ++ showBBox d b ++ " " ++ showPts d ps
  | .polyline d b parts => "polyline " ++ showDim d ++ " " ++ showBBox d b ++ " " ++ toString parts.length ++
      String.join (parts.map fun ps => " " ++ showPts d ps)
  | .polygon d b rings => "polygon " ++ showDim d ++ " " ++ showBBox d b ++ " " ++ toString rings.length ++
      String.join (rings.map fun r => " " ++ showRole r.1 ++ " " ++ showPts d r.2)
  | .multipatch b ps => "multipatch " ++ showBBox .xyzm b ++ " " ++ toString ps.length ++
      String.join (ps.map fun r => " " ++ showKind r.1 ++ " " ++ showPts .xyzm r.2)

/-- role-free rendering (the form the specification-side expectation uses) -/
def flatShape : Shape → String
  | .null => "null"
  | .point d p => "pt 1 " ++ showPt d p
  | .multipoint d b ps => "box " ++ showBBox d b ++ " parts 1 - " ++ showPts d ps
  | .polyline d b parts => "box " ++ showBBox d b ++ " parts " ++ toString parts.length ++
      String.join (parts.map fun ps => " - " ++ showPts d ps)
  | .polygon d b rings => "box " ++ showBBox d b ++ " parts " ++ toString rings.length ++
      String.join (rings.map fun r => " - " ++ showPts d r.2)
  | .multipatch b ps => "box " ++ showBBox .xyzm b ++ " parts " ++ toString ps.length ++
      String.join (ps.map fun r => " " ++ showKind r.1 ++ " " ++ showPts .xyzm r.2)

def showROutFlat : ROut → String
  | .shape s => "ok " ++ flatShape s
  | .none => "none"
  | .err e => "err " ++ (match e with
      | .io => "io" | .fileCode c => s!"filecode {c}" | .shapeType c => s!"shapetype {c}"
      | .patchType c => s!"patchtype {c}" | .mismatch r a => s!"mismatch {r.name} {a.name}"
      | .recSize => "recsize" | .noIndex => "noindex" | .dbase => "dbase")
  | .unit => "unit"
  | .count n => s!"count {n}"
  | .panic s => "panic " ++ s

def showErr : Err → String
  | .io => "io"
  | .fileCode c => s!"filecode {c}"
  | .shapeType c => s!"shapetype {c}"
  | .patchType c => s!"patchtype {c}"
  | .mismatch r a => s!"mismatch {r.name} {a.name}"
  | .recSize => "recsize"
  | .noIndex => "noindex"
  | .dbase => "dbase"

def showROut : ROut → String
  | .none => "none"
  | .shape s => "ok " ++ showShape s
  | .err e => "err " ++ showErr e
  | .unit => "unit"
  | .count n => s!"count {n}"
  | .panic s => "panic " ++ s

def shapeTypeOfName (s : String) : Option ShapeType :=
  ShapeType.all.find? fun t => t.name = s

def target : P Target := do
  let t ← tok
  if t = "generic" then pure .generic else
  match shapeTypeOfName t with
  | some st => pure (.typed st)
  | none => failP

end Shp.Proto

-- Root of the `Shp` library: everything that must build.
import Shp.Model.Reader
import Shp.Props.C19

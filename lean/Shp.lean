-- This module serves as the root of the `Shp` library.
-- Import modules here that should be built as part of the library.
import Shp.Basic

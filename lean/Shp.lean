-- Root of the `Shp` library: everything that must build (`lake build Shp` checks every property
-- theorem; `tools/check.py` builds the module of one property and audits its axioms).
import Shp.Model.Reader
import Shp.Props.C01
import Shp.Props.C02b
import Shp.Props.C03
import Shp.Props.C04
import Shp.Props.C05
import Shp.Props.C06
import Shp.Props.C07
import Shp.Props.C08
import Shp.Props.C09
import Shp.Props.C10
import Shp.Props.C11b
import Shp.Props.C12
import Shp.Props.C13b
import Shp.Props.C14
import Shp.Props.C15b
import Shp.Props.C16
import Shp.Props.C17
import Shp.Props.C18
import Shp.Props.C19
import Shp.Props.C20b
